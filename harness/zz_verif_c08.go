package expr

import (
	"sync"
)

// ---------------------------------------------------------------------------------
// C08 (reduced claim, see DESIGN.md): goroutine schedules are not symbolic variables. What is decided is the
// lemma from which race freedom follows for every schedule: while a program runs (resp. while an expression is
// compiled) NO STORE goes to anything reachable from the program, the environment value, the compile options or
// a package-level variable - the interpreter reports every store (field/element store, map update, in-place
// append, copy) whose target is such an object. Natively (replay) the same harness runs the program from several
// goroutines under the race detector.

func vfC08Env(src string) *vfEnv {
	e := vfMakeEnv(src, 2)
	// pure environment functions without harness bookkeeping (the logging ones write a harness global)
	e.Fn = func(x int) int { return x + 1 }
	e.Hf = func(x int) int { return x * 2 }
	e.Gn = func(x, y int) bool { return x < y }
	e.Pf = func(x int) bool { return x > 0 }
	e.Qf = func(x, y int) bool { return x == y }
	e.FnU8 = func(x uint8) int { return int(x) }
	e.FnF = func(x float64) float64 { return x }
	e.FnI64 = func(x int64) int64 { return x }
	return e
}

func HarnessC08Run() {
	src := vfParamStr("src")
	mapEnv := vfParamInt("mapenv") != 0
	mode := 0
	if mapEnv {
		mode = 2
	}
	c := vfMemoCompile(src, mode, true)
	if c.err != nil {
		vfReach("c08.template-rejected")
		return
	}
	e := vfC08Env(src)
	var env interface{} = e
	if mapEnv {
		env = e.asMap()
	}
	if vfNative() {
		// concurrent runs FIRST (a lazily initialised field is written by the first run that needs it)
		var wg sync.WaitGroup
		outs := make([]interface{}, 4)
		errs := make([]error, 4)
		for i := 0; i < 4; i++ {
			wg.Add(1)
			go func(i int) {
				defer wg.Done()
				for k := 0; k < 3; k++ {
					outs[i], errs[i] = Run(c.prog, env)
				}
			}(i)
		}
		wg.Wait()
		want, werr := Run(c.prog, env)
		vfReach("c08.ran")
		for i := range outs {
			vfAssert((errs[i] == nil) == (werr == nil), "c08.concurrent-run-returns-what-it-returns-alone")
			if errs[i] == nil && werr == nil {
				vfAssert(vfSame(outs[i], want), "c08.concurrent-run-returns-what-it-returns-alone")
			}
		}
		return
	}
	vfSharedBegin(c.prog, env, e)
	want, werr := Run(c.prog, env)
	out1, err1 := Run(c.prog, env)
	out2, err2 := Run(c.prog, env)
	vfSharedEnd()
	vfReach("c08.ran")
	vfAssert((err1 == nil) == (werr == nil) && (err2 == nil) == (werr == nil), "c08.concurrent-run-returns-what-it-returns-alone")
	if err1 == nil && err2 == nil && werr == nil {
		vfAssert(vfSame(out1, want) && vfSame(out2, want), "c08.concurrent-run-returns-what-it-returns-alone")
	}
}

// Pure2: a pure environment method without harness bookkeeping (compile-time calls from several goroutines)
func (e *vfEnv) Pure2(x int) int { return x * 2 }

func HarnessC08Compile() {
	src := vfParamStr("src")
	var sample interface{} = &vfEnv{}
	if vfParamInt("mapenv") != 0 {
		sample = vfSampleMapEnv()
	}
	visitor := &vfReplacer{0}
	ops := []Option{Env(sample), Operator("+", "Add"), ConstExpr("Pure2"), Patch(visitor)}
	if vfParamInt("mapenv") == 1 {
		ops = []Option{Env(sample), Patch(visitor)}
	}
	if vfParamInt("mapenv") == 2 {
		// a struct environment that embeds structs (by value and through a pointer field)
		sample = vfC16Env(8)
		ops = []Option{Env(sample), Patch(visitor)}
	}
	if vfNative() {
		var wg sync.WaitGroup
		for i := 0; i < 4; i++ {
			wg.Add(1)
			go func() {
				defer wg.Done()
				for k := 0; k < 3; k++ {
					Compile(src, ops...)
				}
			}()
		}
		wg.Wait()
		vfReach("c08.compiled")
		return
	}
	vfSharedBegin(sample, ops)
	p0, err0 := Compile(src, ops...)
	p1, err1 := Compile(src, ops...)
	vfSharedEnd()
	vfReach("c08.compiled")
	vfAssert((err0 == nil) == (err1 == nil), "c08.concurrent-compile-same-verdict")
	if err0 == nil && err1 == nil {
		vfAssert(vfSameProgram(p0, p1), "c08.concurrent-compile-same-program")
	}
}
