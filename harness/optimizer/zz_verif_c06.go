package optimizer

import (
	. "github.com/antonmedv/expr/ast"
)

func vfRangeCount(a, b int) uint64 {
	if b < a {
		return 0
	}
	d := uint64(b) - uint64(a)
	if d >= 1<<63 {
		return 1 << 63
	}
	return d + 1
}

// HarnessC06ConstRange: the compile-time materialisation of a literal range, for ALL literal bounds:
// the constant has exactly the elements of the range and never more than 10^6 of them
// (larger ranges are left to the run-time budget).
func HarnessC06ConstRange() {
	lo, hi := vfInt("lo"), vfInt("hi")
	n := vfRangeCount(lo, hi)
	// materialised ranges are explored with at most 3 elements (the fill loop is unrolled);
	// any allocation that could exceed the cap is reported by the allocation oracle below
	vfAssume(n <= 3 || n > 1000000)
	vfAllocCap(1000000, "c06.constrange.at-most-1e6-elements")
	var node Node = &BinaryNode{Operator: "..", Left: &IntegerNode{Value: lo}, Right: &IntegerNode{Value: hi}}
	(&constRange{}).Exit(&node)
	vfReach("c06.constrange.ran")
	if c, ok := node.(*ConstantNode); ok {
		v := c.Value.([]int)
		vfAssert(len(v) <= 1000000, "c06.constrange.at-most-1e6-elements")
		vfAssert(uint64(len(v)) == n, "c06.constrange.has-the-elements-of-the-range")
		for i := range v {
			vfAssert(v[i] == lo+i, "c06.constrange.has-the-elements-of-the-range")
		}
	}
}
