package expr

import (
	"reflect"
	"strings"

	"github.com/antonmedv/expr/checker"
	"github.com/antonmedv/expr/conf"
	"github.com/antonmedv/expr/file"
	"github.com/antonmedv/expr/parser"
)

// ---------------------------------------------------------------------------------
// C03 soundness: an expression compiled against the environment type whose operands are all statically
// typed never fails for a TYPE reason at run time (only for value-dependent reasons), and a successful
// result has the dynamic type the checker reported - exactly bool/int64/float64 under AsBool/AsInt64/AsFloat64.

// ("cannot fetch" is not in the list: the VM uses the same text for a missing member and for access through a nil pointer,
// and nil is a value-dependent reason; name resolution is C16's subject)
var vfTypeReasons = []string{"invalid operation", "interface conversion", "reflect: Call using", "reflect.Value.MapIndex", "not assignable",
	"cannot use", "invalid argument for len", "not defined on", "cannot slice", "reflect: call of", "reflect: Call with"}

func vfIsTypeFailure(err error) bool {
	msg := ""
	if fe, ok := err.(*file.Error); ok {
		msg = fe.Message
	} else {
		msg = err.Error()
	}
	for _, r := range vfTypeReasons {
		if strings.Contains(msg, r) {
			return true
		}
	}
	return false
}

func HarnessC03Sound() {
	src := vfParamStr("src")
	as := vfParamInt("as") // 0 none 1 AsBool 2 AsInt64 3 AsFloat64
	ops := []Option{Env(&vfEnv{})}
	cfg := conf.New(&vfEnv{})
	switch as {
	case 1:
		ops = append(ops, AsBool())
		cfg.Expect = reflect.Bool
	case 2:
		ops = append(ops, AsInt64())
		cfg.Expect = reflect.Int64
	case 3:
		ops = append(ops, AsFloat64())
		cfg.Expect = reflect.Float64
	}
	program, err := Compile(src, ops...)
	if err != nil {
		vfReach("c03.sound.template-rejected")
		return
	}
	tree, _ := parser.Parse(src)
	static, cerr := checker.Check(tree, cfg)
	if cerr != nil {
		vfFail("c03.sound.check-disagrees-with-compile")
	}
	env := vfMakeEnv(src, vfParamInt("maxlen"))
	out, rerr := Run(program, env)
	vfReach("c03.sound.ran")
	if rerr != nil {
		vfAssert(!vfIsTypeFailure(rerr), "c03.accepted-program-never-fails-for-a-type-reason")
		return
	}
	vfReach("c03.sound.succeeded")
	switch as {
	case 1:
		_, ok := out.(bool)
		vfAssert(ok, "c03.asbool-result-is-bool")
	case 2:
		_, ok := out.(int64)
		vfAssert(ok, "c03.asint64-result-is-int64")
	case 3:
		_, ok := out.(float64)
		vfAssert(ok, "c03.asfloat64-result-is-float64")
	default:
		if static != nil && static.Kind() != reflect.Interface && out != nil {
			vfAssert(reflect.TypeOf(out) == static, "c03.result-has-the-static-type")
		}
	}
}

// C03 rejection: an expression that violates a documented typing rule is rejected by Compile wherever the violation sits.
func HarnessC03Reject() {
	src := vfParamStr("src")
	_, err := Compile(src, Env(&vfEnv{}))
	vfReach("c03.reject.compiled")
	vfAssert(err != nil, "c03.ill-typed-expression-is-rejected")
	if vfParamInt("wellsrc") != 0 {
		_, err = Compile(vfParamStr("well"), Env(&vfEnv{}))
		vfAssert(err == nil, "c03.well-typed-sibling-is-accepted")
	}
}
