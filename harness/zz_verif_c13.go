package expr

import (
	"strings"

	"github.com/antonmedv/expr/file"
)

// ---------------------------------------------------------------------------------
// C13: errors point at the offending source position.
// The source is built from a template: '~' is one SYMBOLIC whitespace byte (space, tab or line break, so the
// fault can land on any line/column), "@[" ... "]@" brackets the token at whose first character the error must
// be reported; templates contain multi-byte characters before the fault. mode 0: the fault is a compile-time
// fault (unknown name, type mismatch at one operator, syntax error at one token); mode 1: exactly one run-time
// operation fails. Asserted: reported line/column == position of the marked token, the location lies inside the
// source, the snippet's first line is the source line it names.

func vfC13Build(tmpl string) (src string, line, col int) {
	var out []byte
	curLine, curCol := 1, 0
	line, col = -1, -1
	emit := func(c byte, isRuneStart bool) {
		out = append(out, c)
		if c == '\n' {
			curLine++
			curCol = 0
		} else if isRuneStart {
			curCol++
		}
	}
	for i := 0; i < len(tmpl); i++ {
		c := tmpl[i]
		switch {
		case c == '~':
			w := vfBytes("ws", 1)
			vfAssume(w[0] == ' ' || w[0] == '\n' || w[0] == '\t')
			emit(w[0], true)
		case c == '@' && i+1 < len(tmpl) && tmpl[i+1] == '[':
			line, col = curLine, curCol
			i++
		case c == ']' && i+1 < len(tmpl) && tmpl[i+1] == '@':
			i++
		default:
			emit(c, c < 0x80 || c >= 0xC0)
		}
	}
	return string(out), line, col
}

func vfC13CheckError(err error, src string, line, col int) {
	fe, ok := err.(*file.Error)
	vfAssert(ok, "c13.error-carries-a-location")
	if !ok {
		return
	}
	vfAssert(fe.Line == line && fe.Column == col, "c13.reported-position-is-the-offending-occurrence")
	lines := strings.Split(src, "\n")
	inside := fe.Line >= 1 && fe.Line <= len(lines)
	vfAssert(inside, "c13.reported-location-lies-inside-the-source")
	if !inside {
		return
	}
	text := strings.Replace(lines[fe.Line-1], "\t", " ", -1)
	want := "\n | " + text
	vfAssert(len(fe.Snippet) >= len(want) && fe.Snippet[:len(want)] == want, "c13.snippet-is-the-source-line-it-names")
}

func HarnessC13Position() {
	tmpl := vfParamStr("tmpl")
	mode := vfParamInt("mode")
	src, line, col := vfC13Build(tmpl)
	if mode == 2 || mode == 4 {
		// an overloaded operator whose function fails at run time: the error must be reported at that operator
		calls := 0
		e := &vfOvEnv{V: vfVec{1}, W: vfVec{2}, A: 5, Xs: []vfVec{{3}}}
		e.AddVec = func(a, b vfVec) vfVec {
			calls++
			if mode == 2 || calls == 2 {
				panic("overload failed")
			}
			return vfVec{a.X + b.X}
		}
		program, err := Compile(src, Env(&vfOvEnv{}), Operator("+", "AddVec"))
		vfReach("c13.compiled")
		if err != nil {
			vfFail("c13.run-template-does-not-compile")
		}
		_, rerr := Run(program, e)
		vfReach("c13.ran")
		vfAssert(rerr != nil, "c13.fault-is-reported")
		if rerr != nil {
			vfC13CheckError(rerr, src, line, col)
		}
		return
	}
	envSample := interface{}(&vfEnv{})
	if mode == 3 {
		// names that begin with "in" exist in this environment: the single fault is the marked one
		envSample = map[string]interface{}{"inX": true, "index": []int{1}, "A": 1}
		mode = 0
	}
	program, err := Compile(src, Env(envSample))
	vfReach("c13.compiled")
	if mode == 0 {
		vfAssert(err != nil, "c13.fault-is-reported")
		if err != nil {
			vfC13CheckError(err, src, line, col)
		}
		return
	}
	if err != nil {
		vfFail("c13.run-template-does-not-compile")
	}
	// environment in which exactly the marked operation fails
	e := &vfEnv{A: 5, B: 0, P: false, Q: true, S: "a", T: "[", Xs: []int{1, 2}, Ys: []int{3}}
	e.Fn = func(x int) int {
		if x == 0 {
			panic("environment function failed")
		}
		return x
	}
	_, rerr := Run(program, e)
	vfReach("c13.ran")
	vfAssert(rerr != nil, "c13.fault-is-reported")
	if rerr != nil {
		vfC13CheckError(rerr, src, line, col)
	}
}
