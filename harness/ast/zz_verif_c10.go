package ast

import (
	"reflect"

	"github.com/antonmedv/expr/file"
)

// ---------------------------------------------------------------------------------
// C10: ast.Walk enters and exits every node exactly once, parents around children, children in
// source (= declaration) order, and a replacement made through the *Node takes effect in the slot.
//
// The tree is built from a symbolic kind tag (all 22 node kinds), symbolic child-slice lengths,
// symbolic nil-ness of the optional children; the visitor records (event, node identity) and patches
// at a symbolic event index. The expected event list comes from vfSlots, which is written from the
// struct declarations in ast/node.go (field order), not from the walker.

const vfKinds = 22

type vfTree struct {
	slots map[Node][]*Node // child slots in declaration order (optional children included when non-nil)
}

func vfLeaf(tag string) Node { return &IdentifierNode{Value: tag} }

func vfNodes(n int, tag string) []Node {
	out := make([]Node, n)
	for i := range out {
		out[i] = vfLeaf(tag + string(rune('0'+i)))
	}
	return out
}

func vfSliceSlots(s []Node) []*Node {
	out := make([]*Node, len(s))
	for i := range s {
		out[i] = &s[i]
	}
	return out
}

// vfBuild makes a node of the given kind whose children are leaves; if sub >= 0 the first child slot
// holds a node of kind sub (itself with leaf children) instead of a leaf.
func (t *vfTree) build(kind int, tag string, sub int) Node {
	var n Node
	var slots []*Node
	switch kind {
	case 0:
		n = &NilNode{}
	case 1:
		n = &IdentifierNode{Value: tag}
	case 2:
		n = &IntegerNode{Value: 1}
	case 3:
		n = &FloatNode{Value: 1.5}
	case 4:
		n = &BoolNode{Value: true}
	case 5:
		n = &StringNode{Value: tag}
	case 6:
		n = &ConstantNode{Value: 7}
	case 7:
		x := &UnaryNode{Operator: "-", Node: vfLeaf(tag + ".n")}
		n, slots = x, []*Node{&x.Node}
	case 8:
		x := &BinaryNode{Operator: "+", Left: vfLeaf(tag + ".l"), Right: vfLeaf(tag + ".r")}
		n, slots = x, []*Node{&x.Left, &x.Right}
	case 9:
		x := &MatchesNode{Left: vfLeaf(tag + ".l"), Right: vfLeaf(tag + ".r")}
		n, slots = x, []*Node{&x.Left, &x.Right}
	case 10:
		x := &PropertyNode{Node: vfLeaf(tag + ".n"), Property: "p"}
		n, slots = x, []*Node{&x.Node}
	case 11:
		x := &IndexNode{Node: vfLeaf(tag + ".n"), Index: vfLeaf(tag + ".i")}
		n, slots = x, []*Node{&x.Node, &x.Index}
	case 12:
		x := &SliceNode{Node: vfLeaf(tag + ".n")}
		slots = []*Node{&x.Node}
		if vfBool(tag + ".hasFrom") {
			x.From = vfLeaf(tag + ".from")
			slots = append(slots, &x.From)
		}
		if vfBool(tag + ".hasTo") {
			x.To = vfLeaf(tag + ".to")
			slots = append(slots, &x.To)
		}
		n = x
	case 13:
		x := &MethodNode{Node: vfLeaf(tag + ".n"), Method: "m", Arguments: vfNodes(vfChoice(tag+".nargs", 4), tag+".a")}
		n, slots = x, append([]*Node{&x.Node}, vfSliceSlots(x.Arguments)...)
	case 14:
		x := &FunctionNode{Name: "f", Arguments: vfNodes(vfChoice(tag+".nargs", 4), tag+".a")}
		n, slots = x, vfSliceSlots(x.Arguments)
	case 15:
		x := &BuiltinNode{Name: "len", Arguments: vfNodes(vfChoice(tag+".nargs", 4), tag+".a")}
		n, slots = x, vfSliceSlots(x.Arguments)
	case 16:
		x := &ClosureNode{Node: vfLeaf(tag + ".n")}
		n, slots = x, []*Node{&x.Node}
	case 17:
		n = &PointerNode{}
	case 18:
		x := &ConditionalNode{Cond: vfLeaf(tag + ".c"), Exp1: vfLeaf(tag + ".1"), Exp2: vfLeaf(tag + ".2")}
		n, slots = x, []*Node{&x.Cond, &x.Exp1, &x.Exp2}
	case 19:
		x := &ArrayNode{Nodes: vfNodes(vfChoice(tag+".n", 4), tag+".e")}
		n, slots = x, vfSliceSlots(x.Nodes)
	case 20:
		x := &MapNode{Pairs: vfNodes(vfChoice(tag+".n", 4), tag+".p")}
		n, slots = x, vfSliceSlots(x.Pairs)
	default:
		x := &PairNode{Key: vfLeaf(tag + ".k"), Value: vfLeaf(tag + ".v")}
		n, slots = x, []*Node{&x.Key, &x.Value}
	}
	if sub >= 0 && len(slots) > 0 {
		// put a composite in one (symbolically chosen) child slot
		at := vfChoice(tag+".subslot", len(slots))
		*slots[at] = t.build(sub, tag+".S", -1)
	}
	n.SetLocation(file.Location{Line: 3, Column: 7})
	t.slots[n] = slots
	return n
}

type vfEvent struct {
	exit bool
	node Node
}

func (t *vfTree) expect(n Node, out *[]vfEvent) {
	*out = append(*out, vfEvent{false, n})
	for _, s := range t.slots[n] {
		t.expect(*s, out)
	}
	*out = append(*out, vfEvent{true, n})
}

type vfRecorder struct {
	events  []vfEvent
	patchAt int  // event index at which to patch (-1: never)
	repl    Node // replacement
	patched *Node
	old     Node
}

func (r *vfRecorder) visit(exit bool, n *Node) {
	idx := len(r.events)
	r.events = append(r.events, vfEvent{exit, *n})
	if idx == r.patchAt {
		r.old = *n
		r.patched = n
		Patch(n, r.repl)
	}
}
func (r *vfRecorder) Enter(n *Node) { r.visit(false, n) }
func (r *vfRecorder) Exit(n *Node)  { r.visit(true, n) }

func vfSameEvents(a, b []vfEvent) bool {
	if len(a) != len(b) {
		return false
	}
	for i := range a {
		if a[i].exit != b[i].exit || a[i].node != b[i].node {
			return false
		}
	}
	return true
}

// HarnessC10Walk: prefix [kind, sub+1]
func HarnessC10Walk() {
	kind := vfChoice("kind", vfKinds)
	sub := vfChoice("sub", vfKinds+1) - 1
	t := &vfTree{slots: map[Node][]*Node{}}
	root := t.build(kind, "r", sub)
	var want []vfEvent
	t.expect(root, &want)

	// 1. plain traversal
	rec := &vfRecorder{patchAt: -1}
	orig := root
	Walk(&root, rec)
	vfReach("c10.walked")
	vfAssert(vfSameEvents(rec.events, want), "c10.every-node-entered-and-exited-once-in-order")
	vfAssert(root == orig, "c10.root-unchanged-without-patch")

	// 2. replacement at a symbolic Exit event
	at := vfInt("patchAt")
	vfAssume(at >= 0 && at < len(want))
	vfAssume(want[at].exit)
	repl := &ConstantNode{Value: "replacement"}
	rec2 := &vfRecorder{patchAt: at, repl: repl}
	victim := want[at].node
	victim.SetType(reflect.TypeOf(3.5))
	victim.SetLocation(file.Location{Line: 9, Column: 2})
	// locate the slot that holds the victim before the walk
	var slot *Node
	if victim == root {
		slot = &root
	} else {
		for _, ss := range t.slots {
			for _, s := range ss {
				if *s == victim {
					slot = s
				}
			}
		}
	}
	Walk(&root, rec2)
	vfReach("c10.patched")
	vfAssert(vfSameEvents(rec2.events, want), "c10.patch-does-not-disturb-traversal")
	vfAssert(slot != nil && *slot == Node(repl), "c10.replacement-takes-effect-in-the-tree")
	vfAssert(repl.Type() == reflect.TypeOf(3.5) && repl.Location() == file.Location{Line: 9, Column: 2}, "c10.patch-copies-type-and-location")
}
