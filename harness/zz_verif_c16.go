package expr

import (
	"reflect"

	"github.com/antonmedv/expr/checker"
	"github.com/antonmedv/expr/conf"
	"github.com/antonmedv/expr/docgen"
	"github.com/antonmedv/expr/parser"
)

// ---------------------------------------------------------------------------------
// C16: names the checker accepts are exactly those the VM resolves.
// A family of environment types (embedding by value and by pointer, shadowing at the same and at
// different depths, genuine ambiguity, unexported members, value and pointer receivers, typed and
// untyped maps, nested members) x every member name and near-miss name, chosen symbolically.

type vfIn1 struct {
	A int
	B string
}
type vfIn2 struct {
	A string
	C int
}
type vfDeep struct {
	D int
	A float64
}
type vfMid struct {
	vfDeep
	E int
}
type vfunexp struct{ F int }

type vfE1 struct {
	vfIn1
	X int
}
type vfE2 struct {
	A bool
	vfIn1
}
type vfE3 struct {
	vfIn1
	A bool
}
type vfE4 struct {
	vfIn1
	vfIn2
}
type vfE5 struct {
	*vfIn1
	X int
}
type vfE6 struct {
	vfMid
	A int
}
type vfE7 struct {
	vfMid
	vfIn1
}
type vfE8 struct {
	priv int
	Pub  int
	vfIn1
}
type vfE9 struct {
	vfunexp
	X int
}
type vfE10 struct {
	Inner vfE4
	Deep  *vfE7
	X     int
}
type vfE11 struct {
	vfIn1
	B func(int) int
}

type vfIn3 struct {
	A int
	G int
}
type vfE12 struct {
	vfIn1
	vfIn3
}
type vfHasVer struct{ K int }

func (vfHasVer) Ver() int { return 41 }

type vfVerFn struct{ Ver func() string }
type vfVerMid struct{ vfVerFn }
type vfE13 struct {
	vfHasVer
	vfVerMid
}
type vfVerMap map[string]interface{}

func (vfVerMap) Ver() int { return 41 }

func (vfE1) ValM() int    { return 1 }
func (*vfE1) PtrM() int   { return 2 }
func (vfIn1) InM() string { return "in" }

var vfC16Names = []string{"A", "B", "C", "D", "E", "X", "F", "priv", "Pub", "ValM", "PtrM", "InM", "Zz", "Inner", "Deep", "vfIn1", "vfMid", "a", "G", "K", "Ver"}

func vfC16Env(k int) interface{} {
	in1 := vfIn1{A: 11, B: "b"}
	in2 := vfIn2{A: "a2", C: 13}
	mid := vfMid{vfDeep: vfDeep{D: 14, A: 1.5}, E: 15}
	switch k {
	case 0:
		return vfE1{in1, 1}
	case 1:
		return &vfE1{in1, 1}
	case 2:
		return vfE2{true, in1}
	case 3:
		return vfE3{in1, true}
	case 4:
		return vfE4{in1, in2}
	case 5:
		return vfE5{&in1, 5}
	case 6:
		return &vfE5{&in1, 5}
	case 7:
		return vfE6{mid, 6}
	case 8:
		return vfE7{mid, in1}
	case 9:
		return vfE8{1, 2, in1}
	case 10:
		return vfE9{vfunexp{9}, 1}
	case 11:
		return vfE10{Inner: vfE4{in1, in2}, Deep: &vfE7{mid, in1}, X: 1}
	case 12:
		return map[string]int{"A": 1, "B": 2}
	case 13:
		return map[string]interface{}{"A": 1, "B": "s", "C": func(x int) int { return x }, "Inner": vfE4{in1, in2}}
	case 14:
		return vfE11{in1, func(x int) int { return x }}
	case 16:
		return vfE12{in1, vfIn3{A: 1, G: 2}}
	case 17:
		return vfE13{vfHasVer{1}, vfVerMid{vfVerFn{func() string { return "deep" }}}}
	case 18:
		return vfVerMap{"Ver": func() string { return "entry" }, "A": 1}
	default:
		return &vfE7{mid, in1}
	}
}

const vfC16Envs = 19

// goResolves: Go's own member resolution (selector rule), through reflect on the TYPE.
func vfGoResolvesField(env interface{}, name string) (reflect.Type, bool) {
	t := reflect.TypeOf(env)
	if t.Kind() == reflect.Ptr {
		t = t.Elem()
	}
	if t.Kind() != reflect.Struct {
		return nil, false
	}
	f, ok := t.FieldByName(name)
	if !ok || f.PkgPath != "" {
		return nil, false
	}
	return f.Type, true
}

// HarnessC16Identifier: a bare identifier. params: env
func HarnessC16Identifier() {
	k := vfParamInt("env")
	env := vfC16Env(k)
	name := vfC16Names[vfChoice("name", len(vfC16Names))]
	program, err := Compile(name, Env(env))
	vfReach("c16.ident.compiled")
	goType, goOK := vfGoResolvesField(env, name)
	_, isMethod := reflect.TypeOf(env).MethodByName(name)
	if err == nil {
		// (i) accepted => resolvable on a fully populated value, with the type the checker assumed
		out, rerr := Run(program, env)
		if isMethod {
			return // a bare method name is a function value; calling it is checked below
		}
		vfAssert(rerr == nil, "c16.accepted-identifier-resolves-at-run-time")
		if rerr == nil {
			tree, _ := parser.Parse(name)
			static, _ := checker.Check(tree, conf.New(env))
			if static != nil && static.Kind() != reflect.Interface && out != nil {
				vfAssert(reflect.TypeOf(out) == static, "c16.resolved-value-has-the-assumed-type")
			}
		}
	} else if goOK {
		// (ii) struct environments: every exported member Go resolves unambiguously is accepted
		_ = goType
		vfAssert(false, "c16.member-go-resolves-is-accepted")
	}
}

// HarnessC16Call: calling a method / function-valued member by name
func HarnessC16Call() {
	k := vfParamInt("env")
	env := vfC16Env(k)
	name := []string{"ValM", "PtrM", "InM", "C", "B", "Zz", "Ver"}[vfChoice("name", 7)]
	src := name + "()"
	if name == "C" || name == "B" {
		src = name + "(1)"
	}
	program, err := Compile(src, Env(env))
	vfReach("c16.call.compiled")
	_, isMethod := reflect.TypeOf(env).MethodByName(name)
	if err == nil {
		out, rerr := Run(program, env)
		vfAssert(rerr == nil, "c16.accepted-call-resolves-at-run-time")
		if rerr == nil {
			tree, _ := parser.Parse(src)
			static, _ := checker.Check(tree, conf.New(env))
			if static != nil && static.Kind() != reflect.Interface && out != nil {
				vfAssert(reflect.TypeOf(out) == static, "c16.resolved-value-has-the-assumed-type")
			}
		}
	} else if isMethod {
		vfAssert(false, "c16.method-go-resolves-is-accepted")
	}
}

// HarnessC16Member: member of a nested struct value (fieldType vs run-time FieldByName)
func HarnessC16Member() {
	env := vfC16Env(11)
	base := []string{"Inner", "Deep"}[vfChoice("base", 2)]
	name := vfC16Names[vfChoice("name", len(vfC16Names))]
	src := base + "." + name
	program, err := Compile(src, Env(env))
	vfReach("c16.member.compiled")
	var inner interface{} = env.(vfE10).Inner
	if base == "Deep" {
		inner = env.(vfE10).Deep
	}
	_, goOK := vfGoResolvesField(inner, name)
	_, isMethod := reflect.TypeOf(inner).MethodByName(name)
	if err == nil {
		_, rerr := Run(program, env)
		if !isMethod {
			vfAssert(rerr == nil, "c16.accepted-member-resolves-at-run-time")
		}
	} else if goOK {
		vfAssert(false, "c16.member-go-resolves-is-accepted")
	}
}

// HarnessC16Doc: the generated documentation lists exactly the accepted top-level names (plus the fixed builtins/operators)
func HarnessC16Doc() {
	k := vfParamInt("env")
	env := vfC16Env(k)
	doc := docgen.CreateDoc(env)
	name := vfC16Names[vfChoice("name", len(vfC16Names))]
	_, err := Compile(name, Env(env))
	_, listed := doc.Variables[docgen.Identifier(name)]
	vfReach("c16.doc.created")
	vfAssert(listed == (err == nil), "c16.documentation-lists-exactly-the-accepted-names")
}
