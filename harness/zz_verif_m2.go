package expr

import (
	"strings"

	"github.com/antonmedv/expr/ast"
	"github.com/antonmedv/expr/parser"
	"github.com/antonmedv/expr/vm"
)

// ---------------------------------------------------------------------------------
// Program-level harnesses (M2): the template source is a job parameter (concrete); it is parsed,
// checked, optimized and compiled by the REAL pipeline inside the symbolic interpreter; the
// environment VALUES are symbolic; the real VM runs symbolically.

type vfCompiled struct {
	prog *vm.Program
	err  error
	tree *parser.Tree
}

// vfMemoCompile: the template source is concrete, so compiling it is deterministic set-up work; the
// interpreter executes functions named vfMemo* once per job and shares the result between paths.
// mode: 0 Env(*struct) 1 Env(struct) 2 Env(map) 3 no env 4 allow-undefined 5 Env(*struct) unoptimized
func vfMemoCompile(src string, mode int, optimize bool) *vfCompiled {
	var ops []Option
	switch mode {
	case 0:
		ops = []Option{Env(&vfEnv{})}
	case 1:
		ops = []Option{Env(vfEnv{})}
	case 2:
		ops = []Option{Env(vfSampleMapEnv())}
	case 3:
	case 4:
		ops = []Option{Env(&vfEnv{}), AllowUndefinedVariables()}
	}
	ops = append(ops, Optimize(optimize))
	c := &vfCompiled{}
	c.prog, c.err = Compile(src, ops...)
	c.tree, _ = parser.Parse(src)
	return c
}

func vfCompileTyped(src string, optimize bool) (*vm.Program, error) {
	c := vfMemoCompile(src, 0, optimize)
	return c.prog, c.err
}

// HarnessC01Template: compiled evaluation == reference evaluator, for all environment values.
func HarnessC01Template() {
	src := vfParamStr("src")
	opt := vfParamInt("optimize") != 0
	program, err := vfCompileTyped(src, opt)
	if err != nil {
		vfReach("c01.template-rejected-by-compile")
		return
	}
	tree := vfMemoCompile(src, 0, opt).tree
	env := vfMakeEnv(src, vfParamInt("maxlen"))
	vfLog = nil
	got, rerr := Run(program, env)
	gotLog := vfLog
	vfLog = nil
	want, failed, _ := vfRefEval(tree.Node, env)
	wantLog := vfLog
	vfReach("c01.ran")
	vfAssert((rerr != nil) == failed, "c01.fails-exactly-when-the-definition-says")
	if rerr == nil && !failed {
		vfReach("c01.both-succeed")
		vfAssert(vfSame(got, want), "c01.value-equals-definition")
		vfAssert(vfSameLog(gotLog, wantLog), "c01.calls-exactly-once-left-to-right")
	}
}

// ---------------------------------------------------------------------------------
// C02: optimizer transparency. The same source is compiled with Optimize(true) and Optimize(false);
// integer literals can be made SYMBOLIC (a Patch visitor overwrites IntegerNode.Value before the
// optimizer runs, the same values in both compilations), so the real rewrite rules compute on
// symbolic literal values.

type vfLitPatcher struct {
	symbolic bool
	small    bool
	replay   bool
	vals     []int
	pos      int
}

func (p *vfLitPatcher) Enter(n *ast.Node) {}
func (p *vfLitPatcher) Exit(n *ast.Node) {
	in, ok := (*n).(*ast.IntegerNode)
	if !ok || !p.symbolic {
		return
	}
	if p.replay {
		in.Value = p.vals[p.pos]
		p.pos++
		return
	}
	v := vfInt("lit")
	vfAssume(v >= 0) // what the parser can produce: integer literals are non-negative (a sign is a unary operator)
	if p.small {
		vfAssume(v >= -2 && v <= 4)
	}
	p.vals = append(p.vals, v)
	in.Value = v
}

// vfConstInt evaluates an integer constant expression (literals under + - * / % and unary + -);
// divz reports a constant division or modulo by zero inside it.
func vfConstInt(n ast.Node) (v int, isConst bool, divz bool) {
	switch x := n.(type) {
	case *ast.IntegerNode:
		return x.Value, true, false
	case *ast.UnaryNode:
		a, ok, dz := vfConstInt(x.Node)
		if !ok || dz {
			return 0, ok, dz
		}
		switch x.Operator {
		case "-":
			return -a, true, false
		case "+":
			return a, true, false
		}
	case *ast.BinaryNode:
		a, ok1, dz1 := vfConstInt(x.Left)
		b, ok2, dz2 := vfConstInt(x.Right)
		if dz1 || dz2 {
			return 0, ok1 && ok2, true
		}
		if !ok1 || !ok2 {
			return 0, false, false
		}
		switch x.Operator {
		case "+":
			return a + b, true, false
		case "-":
			return a - b, true, false
		case "*":
			return a * b, true, false
		case "/":
			if b == 0 {
				return 0, true, true
			}
			return a / b, true, false
		case "%":
			if b == 0 {
				return 0, true, true
			}
			return a % b, true, false
		}
	}
	return 0, false, false
}

type vfDivZeroFinder struct{ found bool }

func (f *vfDivZeroFinder) Enter(n *ast.Node) {}
func (f *vfDivZeroFinder) Exit(n *ast.Node) {
	if _, _, dz := vfConstInt(*n); dz {
		f.found = true
	}
}

func HarnessC02Template() {
	src := vfParamStr("src")
	lits := &vfLitPatcher{symbolic: vfParamInt("symlit") != 0, small: strings.Contains(src, "..") || strings.Contains(src, "**")}
	p1, err1 := Compile(src, Env(&vfEnv{}), Optimize(true), Patch(lits))
	lits.replay, lits.pos = true, 0
	p0, err0 := Compile(src, Env(&vfEnv{}), Optimize(false), Patch(lits))
	if err0 != nil {
		vfReach("c02.template-rejected-unoptimized")
		vfAssert(err1 != nil, "c02.optimizer-does-not-accept-more")
		return
	}
	if err1 != nil {
		vfReach("c02.rejected-by-optimizer")
		tree, _ := parser.Parse(src)
		lits.pos = 0
		ast.Walk(&tree.Node, lits)
		f := &vfDivZeroFinder{}
		ast.Walk(&tree.Node, f)
		vfAssert(f.found, "c02.optimizer-rejects-only-constant-division-by-zero")
		return
	}
	env := vfMakeEnv(src, vfParamInt("maxlen"))
	vfLog = nil
	out1, e1 := Run(p1, env)
	log1 := vfLog
	vfLog = nil
	out0, e0 := Run(p0, env)
	log0 := vfLog
	vfReach("c02.ran")
	vfAssert((e1 != nil) == (e0 != nil), "c02.both-fail-or-both-succeed")
	if e1 == nil && e0 == nil {
		vfReach("c02.both-succeed")
		vfAssert(vfSame(out1, out0), "c02.equal-results")
		_, _ = log1, log0 // the number of calls is C01's subject ("exactly once"), not C02's
	}
}

// ---------------------------------------------------------------------------------
// C15: type information only rejects. One source, every compilation mode; all variants that
// compile and run successfully must return equal results, for all environment values.

func vfSampleMapEnv() map[string]interface{} {
	e := &vfEnv{}
	e.Xs, e.Ys, e.M = []int{}, []int{}, map[string]int{}
	return e.asMap()
}

func HarnessC15Template() {
	src := vfParamStr("src")
	type variant struct {
		name string
		prog *vm.Program
		err  error
		env  func(e *vfEnv) interface{}
	}
	ptrEnv := func(e *vfEnv) interface{} { return e }
	valEnv := func(e *vfEnv) interface{} { return *e }
	mapEnv := func(e *vfEnv) interface{} { return e.asMap() }
	var vs []variant
	add := func(name string, env func(e *vfEnv) interface{}, mode int, optimize bool) {
		c := vfMemoCompile(src, mode, optimize)
		vs = append(vs, variant{name, c.prog, c.err, env})
	}
	add("env-ptr-struct", ptrEnv, 0, true)
	add("env-struct", valEnv, 1, true)
	add("env-map", mapEnv, 2, true)
	add("no-env/ptr", ptrEnv, 3, true)
	add("no-env/map", mapEnv, 3, true)
	add("allow-undefined", ptrEnv, 4, true)
	add("env-ptr-struct/unoptimized", ptrEnv, 0, false)
	e := vfMakeEnv(src, vfParamInt("maxlen"))
	var ref interface{}
	have := false
	refName := ""
	n := 0
	for _, v := range vs {
		if v.err != nil {
			continue
		}
		out, err := Run(v.prog, v.env(e))
		if err != nil {
			continue
		}
		n++
		if !have {
			ref, have, refName = out, true, v.name
			continue
		}
		vfNote(refName + " vs " + v.name)
		vfAssert(vfSame(out, ref), "c15.variants-that-succeed-agree")
	}
	// Eval: the untyped pipeline end to end
	out, err := Eval(src, e)
	if err == nil {
		n++
		if have {
			vfNote(refName + " vs Eval")
			vfAssert(vfSame(out, ref), "c15.eval-agrees")
		}
	}
	vfReach("c15.ran")
	if n >= 2 {
		vfReach("c15.compared")
	}
}

// ---------------------------------------------------------------------------------
// C18: identities between the collection builtins, with uninterpreted predicates/mappers
// (Pf, Qf, Gn, Fn, Hf of the harness environment), arrays of symbolic length and content.
// mode 0: lhs and rhs compiled as two programs, results must be equal (and fail together)
// mode 1: lhs compared with the reference evaluator (value and call log)
// mode 2: slicing partition: lhs[:I] ++ lhs[I:] == lhs  (I = env member A)

func HarnessC18Identity() {
	lhs := vfParamStr("lhs")
	rhs := vfParamStr("rhs")
	mode := vfParamInt("mode")
	opt := vfParamInt("optimize") != 0
	e := vfMakeEnv(lhs+" "+rhs, vfParamInt("maxlen"))
	run := func(src string) (interface{}, bool, []vfCall) {
		c := vfMemoCompile(src, 0, opt)
		if c.err != nil {
			vfFail("c18.identity-side-does-not-compile")
		}
		vfLog = nil
		out, rerr := Run(c.prog, e)
		return out, rerr != nil, vfLog
	}
	switch mode {
	case 0:
		l, lf, _ := run(lhs)
		r, rf, _ := run(rhs)
		vfReach("c18.ran")
		vfAssert(lf == rf, "c18.sides-fail-together")
		if !lf && !rf {
			vfAssert(vfSame(l, r), "c18.identity-holds")
		}
		// and as one expression
		one, of, _ := run("(" + lhs + ") == (" + rhs + ")")
		if !of && !lf && !rf {
			vfAssert(one == true, "c18.identity-holds-as-one-expression")
		}
	case 1:
		l, lf, llog := run(lhs)
		tree := vfMemoCompile(lhs, 0, opt).tree
		vfLog = nil
		want, wf, _ := vfRefEval(tree.Node, e)
		wlog := vfLog
		vfReach("c18.ran")
		vfAssert(lf == wf, "c18.fails-like-definition")
		if !lf && !wf {
			vfAssert(vfSame(l, want), "c18.elements-in-order")
			vfAssert(vfSameLog(llog, wlog), "c18.closure-sees-own-innermost-element")
		}
	default:
		whole, wf, _ := run(lhs)
		a, af, _ := run("(" + lhs + ")[:A]")
		b, bf, _ := run("(" + lhs + ")[A:]")
		vfReach("c18.ran")
		if e.A >= 0 && !wf {
			vfAssert(!af && !bf, "c18.slicing-at-nonnegative-index-succeeds")
			if !af && !bf {
				as, _ := vfSeq(a)
				bs, _ := vfSeq(b)
				ws, _ := vfSeq(whole)
				cat := append(append([]interface{}{}, as...), bs...)
				vfAssert(vfSame(cat, ws), "c18.slicing-partitions")
			}
		}
	}
}

// ---------------------------------------------------------------------------------
// C04 (pipeline stage): every combination of compile options on grammatical sources (well- and ill-typed),
// node-replacing patch visitors, environments with nil members and panicking functions:
// Compile/Run/Eval return a result or an error, never panic; error => nil program/value.

type vfReplacer struct{ mode int }

func (r *vfReplacer) Enter(n *ast.Node) {}
func (r *vfReplacer) Exit(n *ast.Node) {
	switch r.mode {
	case 1: // integer literals -> constants
		if in, ok := (*n).(*ast.IntegerNode); ok {
			ast.Patch(n, &ast.ConstantNode{Value: in.Value})
		}
	case 2: // identifiers -> string literals
		if id, ok := (*n).(*ast.IdentifierNode); ok {
			ast.Patch(n, &ast.StringNode{Value: id.Value})
		}
	case 3: // unknown name X -> A (a patch that repairs)
		if id, ok := (*n).(*ast.IdentifierNode); ok && id.Value == "X" {
			ast.Patch(n, &ast.IdentifierNode{Value: "A"})
		}
	case 4: // binary + -> nil literal
		if b, ok := (*n).(*ast.BinaryNode); ok && b.Operator == "+" {
			ast.Patch(n, &ast.NilNode{})
		}
	}
}

func (e *vfEnv) Add(a, b int) int { return a + b }

func HarnessC04Compile() {
	src := vfParamStr("src")
	var ops []Option
	envKind := vfChoice("env", 3)
	switch envKind {
	case 1:
		ops = append(ops, Env(&vfEnv{}))
	case 2:
		ops = append(ops, Env(vfSampleMapEnv()))
	}
	if vfBool("allow-undefined") {
		ops = append(ops, AllowUndefinedVariables())
	}
	if vfBool("no-optimize") {
		ops = append(ops, Optimize(false))
	}
	switch vfChoice("as", 4) {
	case 1:
		ops = append(ops, AsBool())
	case 2:
		ops = append(ops, AsInt64())
	case 3:
		ops = append(ops, AsFloat64())
	}
	if envKind == 1 && vfBool("operator") {
		ops = append(ops, Operator("+", "Add"))
	}
	if vfBool("constexpr") {
		ops = append(ops, ConstExpr("Twice")) // with the map environment and without Env the function does not exist
	}
	if m := vfChoice("patch", 5); m > 0 {
		ops = append(ops, Patch(&vfReplacer{m}))
	}
	program, err := Compile(src, ops...)
	vfReach("c04.compile.returned")
	if err != nil {
		vfAssert(program == nil, "c04.compile.error-means-nil-program")
		return
	}
	vfAssert(program != nil, "c04.compile.no-error-means-a-program")
	// run it on an environment with nil members and a panicking function
	e := &vfEnv{A: vfInt("A"), B: vfInt("B"), P: vfBool("P"), S: "a", Xs: []int{vfInt("x0")}}
	if strings.Contains(src, "..") {
		vfAssume(e.A >= -1 && e.A <= 3) // run-time ranges are unrolled: keep them short
	}
	e.Fn = func(x int) int { panic("boom") }
	if vfBool("ptr") {
		e.Ptr = &vfNode{V: 1}
	}
	var env interface{} = e
	if envKind == 2 {
		env = e.asMap()
	}
	out, rerr := Run(program, env)
	vfReach("c04.run.returned")
	if rerr != nil {
		vfAssert(out == nil, "c04.run.error-means-nil-value")
	}
	out2, eerr := Eval(src, env)
	if eerr != nil {
		vfAssert(out2 == nil, "c04.eval.error-means-nil-value")
	}
}

// ---------------------------------------------------------------------------------
// C02 (constant expressions): marking a pure environment function as ConstExpr never changes a result;
// it can only move the failure of that call to compile time.

type vfLevel int

func (l vfLevel) String() string { return "level" }

type vfCEEnv struct {
	A    int
	P    bool
	Pure func(int) int
	Lvl  func(int) vfLevel
	Cat  func(string, string) string
	I8   func(int) int8
}

func HarnessC02ConstExpr() {
	src := vfParamStr("src")
	bad := vfInt("bad")
	env := &vfCEEnv{A: vfInt("A"), P: vfBool("P")}
	sawBad := false
	env.Pure = func(x int) int {
		if x == bad {
			sawBad = true
			panic("pure function rejects its argument")
		}
		return vfUFInt("Pure", x)
	}
	env.Lvl = func(x int) vfLevel { return vfLevel(x) }
	env.Cat = func(a, b string) string { return a + b }
	env.I8 = func(x int) int8 { return int8(x) }
	lits := &vfLitPatcher{symbolic: vfParamInt("symlit") != 0}
	p1, err1 := Compile(src, Env(env), Patch(lits), ConstExpr("Pure"), ConstExpr("Lvl"), ConstExpr("Cat"), ConstExpr("I8"))
	lits.replay, lits.pos = true, 0
	p0, err0 := Compile(src, Env(env), Patch(lits))
	if err0 != nil {
		vfReach("c02.constexpr.template-rejected")
		return
	}
	if err1 != nil {
		vfReach("c02.constexpr.failure-moved-to-compile-time")
		// then the call itself failed: the function was applied to the value it rejects
		found := sawBad
		vfAssert(found, "c02.constexpr.only-the-failure-of-the-call-moves-to-compile-time")
		return
	}
	out1, e1 := Run(p1, env)
	out0, e0 := Run(p0, env)
	vfReach("c02.constexpr.ran")
	// the marked program may only fail where the unmarked one fails
	if e0 == nil {
		vfAssert(e1 == nil, "c02.constexpr.does-not-add-run-time-failures")
	}
	if e1 == nil && e0 == nil {
		vfAssert(vfSame(out1, out0), "c02.constexpr.equal-results")
	}
}

type vfIntFinder struct {
	want  int
	found bool
}

func (f *vfIntFinder) Enter(n *ast.Node) {}
func (f *vfIntFinder) Exit(n *ast.Node) {
	if in, ok := (*n).(*ast.IntegerNode); ok && in.Value == f.want {
		f.found = true
	}
}

// ---------------------------------------------------------------------------------
// C07 (program level): two compiled programs run one after the other on ONE VM value, with environments
// of possibly different forms (map, *struct, nil); the second run must behave as on a fresh VM.
func HarnessC07Programs() {
	src1, src2 := vfParamStr("src1"), vfParamStr("src2")
	mode1, mode2 := vfChoice("mode1", 3), vfChoice("mode2", 3)
	modes := []int{0, 2, 3} // Env(*struct), Env(map), no env
	c1 := vfMemoCompile(src1, modes[mode1], true)
	c2 := vfMemoCompile(src2, modes[mode2], true)
	if c1.err != nil || c2.err != nil {
		vfReach("c07.programs.template-rejected")
		return
	}
	e1 := vfMakeEnv(src1, 2)
	e2 := vfMakeEnv(src2, 2)
	pick := func(e *vfEnv, name string) interface{} {
		switch vfChoice(name, 3) {
		case 0:
			return e
		case 1:
			return e.asMap()
		}
		return nil
	}
	env1, env2 := pick(e1, "env1"), pick(e2, "env2")
	used := &vm.VM{}
	used.Run(c1.prog, env1)
	out1, err1 := used.Run(c2.prog, env2)
	fresh := &vm.VM{}
	out2, err2 := fresh.Run(c2.prog, env2)
	vfReach("c07.programs.ran")
	vfAssert((err1 == nil) == (err2 == nil), "c07.programs.same-outcome-as-fresh")
	if err1 == nil && err2 == nil {
		vfAssert(vfSame(out1, out2), "c07.programs.same-result-as-fresh")
	}
}

// ---------------------------------------------------------------------------------
// C10 (program level): a replacement made by a user visitor takes effect in the tree that is then checked and
// compiled: compiling src with a Patch visitor that renames identifier `from` to `to` must behave exactly like
// compiling the already substituted source: same verdict, and equal results for all environment values.

type vfRenamer struct{ from, to string }

func (r *vfRenamer) Enter(n *ast.Node) {}
func (r *vfRenamer) Exit(n *ast.Node) {
	if id, ok := (*n).(*ast.IdentifierNode); ok && id.Value == r.from {
		ast.Patch(n, &ast.IdentifierNode{Value: r.to})
	}
}

func HarnessC10Patched() {
	src, want := vfParamStr("src"), vfParamStr("want")
	p1, err1 := Compile(src, Env(&vfEnv{}), Patch(&vfRenamer{vfParamStr("from"), vfParamStr("to")}))
	c := vfMemoCompile(want, 0, true)
	vfReach("c10.patched.compiled")
	vfAssert((err1 == nil) == (c.err == nil), "c10.patched-tree-is-what-gets-checked")
	if err1 != nil || c.err != nil {
		return
	}
	e := vfMakeEnv(src+" "+want, 2)
	out1, e1 := Run(p1, e)
	out2, e2 := Run(c.prog, e)
	vfAssert((e1 == nil) == (e2 == nil), "c10.patched-tree-is-what-gets-compiled")
	if e1 == nil && e2 == nil {
		vfAssert(vfSame(out1, out2), "c10.patched-tree-is-what-gets-compiled")
	}
}
