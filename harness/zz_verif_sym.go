package expr

// Nondeterministic inputs and verification primitives. These declarations have no bodies:
// the symbolic interpreter (gosym) intercepts them; for native replay the file
// zz_verif_native.go (generated) gives them bodies that read the solver's assignment.
// GENERATED from /verif/tools/sym.go.tmpl by /verif/tools/gen_sym.sh - do not edit.

func vfInt(name string) int
func vfInt8(name string) int8
func vfInt16(name string) int16
func vfInt32(name string) int32
func vfInt64(name string) int64
func vfUint(name string) uint
func vfUint8(name string) uint8
func vfUint16(name string) uint16
func vfUint32(name string) uint32
func vfUint64(name string) uint64
func vfFloat32(name string) float32
func vfFloat64(name string) float64
func vfBool(name string) bool
func vfByte(name string) byte
func vfRune(name string) rune
func vfChoice(name string, n int) int
func vfParamStr(name string) string
func vfParamInt(name string) int
func vfUFInt(name string, args ...int) int
func vfUFBool(name string, args ...int) bool
func vfAssume(ok bool)
func vfAssert(ok bool, id string)
func vfReach(id string)
func vfFail(id string)
func vfNote(s string)
func vfBytes(name string, n int) string
func vfChoiceStr(name string, opts ...string) string
func vfAllocCap(n int, id string)
func vfMapOrder(on bool)
func vfNative() bool
func vfSharedBegin(objs ...interface{})
func vfSharedEnd()
