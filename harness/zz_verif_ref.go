package expr

import (
	"math"
	"regexp"
	"strings"

	"github.com/antonmedv/expr/ast"
)

// ---------------------------------------------------------------------------------
// Harness environment and REFERENCE EVALUATOR.
//
// The reference evaluator is a tree-walking interpreter over the parse tree, written from
// docs/Language-Definition.md and Go's arithmetic rules; it shares no code with the checker,
// optimizer, compiler or VM. It is ordinary Go, so a counterexample replays natively.

type vfNode struct {
	V    int
	Next *vfNode
}

type vfCall struct {
	name string
	a, b int
}

var vfLog []vfCall

type vfEnv struct {
	A, B  int
	I64   int64
	U8    uint8
	I8    int8
	F     float64
	P, Q  bool
	S, T  string
	Xs    []int
	Ys    []int
	Xss   [][]int
	Ss    []string
	Any   interface{}
	M     map[string]int
	Ptr   *vfNode
	Fn    func(int) int
	Gn    func(int, int) bool
	Pf    func(int) bool
	Qf    func(int, int) bool
	Hf    func(int) int
	FnU8  func(uint8) int
	FnF   func(float64) float64
	FnI64 func(int64) int64
	Vf    func(string, ...interface{}) interface{}
	Vv    func(...interface{}) interface{}
	Pair  func(...interface{}) interface{}
}

func (e vfEnv) Twice(x int) int {
	vfLog = append(vfLog, vfCall{"Twice", x, 0})
	r := vfUFInt("Twice", x)
	if vfSmallInts {
		vfAssume(r >= -1 && r <= 3)
	}
	return r
}

// vfSmallInts: the template contains a run-time range, so every int that can become a bound is kept small
var vfSmallInts bool

func (e *vfEnv) PtrAdd(x int) int {
	vfLog = append(vfLog, vfCall{"PtrAdd", x, 0})
	return vfUFInt("PtrAdd", x)
}

var vfStrings = []string{"", "a", "ab", "b"}

// vfMakeEnv builds the environment: members that the source text mentions get symbolic values,
// the others fixed ones (this only prunes irrelevant forks).
func vfMakeEnv(src string, maxLen int) *vfEnv {
	e := &vfEnv{}
	uses := func(name string) bool { return strings.Contains(src, name) }
	small := uses("..")
	vfSmallInts = small
	bound := func(x int) int {
		if small {
			// run-time ranges are unrolled: every int that can become a range bound stays small
			vfAssume(x >= -1 && x <= 3)
		}
		return x
	}
	e.A, e.B = vfInt("A"), vfInt("B")
	if uses("..") {
		// bound on run-time ranges: the loop in makeRange is unrolled, so range bounds stay small
		vfAssume(e.A >= -1 && e.A <= 3 && e.B >= -1 && e.B <= 3)
	}
	if uses("I64") {
		e.I64 = vfInt64("I64")
	}
	if uses("U8") {
		e.U8 = vfUint8("U8")
	}
	if uses("I8") {
		e.I8 = vfInt8("I8")
	}
	if uses("F") {
		e.F = vfFloat64("F")
		vfAssume(e.F == e.F) // not NaN (NaN != NaN makes every differential comparison of results vacuous)
	}
	e.P, e.Q = vfBool("P"), vfBool("Q")
	if uses("S") {
		e.S = vfStrings[vfChoice("S", len(vfStrings))]
	}
	if uses("T") {
		e.T = vfStrings[vfChoice("T", len(vfStrings))]
	}
	mk := func(name string) []int {
		n := vfChoice(name+".len", maxLen+1)
		xs := make([]int, n)
		for i := range xs {
			xs[i] = bound(vfInt(name + string(rune('0'+i))))
		}
		return xs
	}
	if uses("Xs") {
		e.Xs = mk("Xs")
	} else {
		e.Xs = []int{1}
	}
	if uses("Ys") {
		e.Ys = mk("Ys")
	} else {
		e.Ys = []int{2}
	}
	if uses("Xss") {
		n := vfChoice("Xss.len", maxLen+1)
		e.Xss = make([][]int, n)
		for i := range e.Xss {
			e.Xss[i] = mk("Xss" + string(rune('0'+i)) + "_")
		}
	}
	if uses("Ss") {
		n := vfChoice("Ss.len", maxLen+1)
		e.Ss = make([]string, n)
		for i := range e.Ss {
			e.Ss[i] = vfStrings[vfChoice("Ss.el", len(vfStrings))]
		}
	}
	if uses("Any") {
		switch vfChoice("Any.kind", 6) {
		case 0:
			e.Any = vfInt("Any.int")
		case 1:
			e.Any = vfInt64("Any.int64")
		case 2:
			f := vfFloat64("Any.float64")
			vfAssume(f == f)
			e.Any = f
		case 3:
			e.Any = vfStrings[vfChoice("Any.string", len(vfStrings))]
		case 4:
			e.Any = vfUint8("Any.uint8")
		}
	}
	if uses("M") {
		e.M = map[string]int{}
		if vfBool("M.has_a") {
			e.M["a"] = bound(vfInt("M.a"))
		}
		if vfBool("M.has_b") {
			e.M["b"] = bound(vfInt("M.b"))
		}
	}
	if uses("Ptr") {
		switch vfChoice("Ptr", 3) {
		case 1:
			e.Ptr = &vfNode{V: bound(vfInt("Ptr.V"))}
		case 2:
			e.Ptr = &vfNode{V: bound(vfInt("Ptr.V")), Next: &vfNode{V: bound(vfInt("Ptr.Next.V"))}}
		}
	}
	e.Fn = func(x int) int { vfLog = append(vfLog, vfCall{"Fn", x, 0}); return bound(vfUFInt("Fn", x)) }
	e.Hf = func(x int) int { vfLog = append(vfLog, vfCall{"Hf", x, 0}); return bound(vfUFInt("Hf", x)) }
	e.Gn = func(x, y int) bool { vfLog = append(vfLog, vfCall{"Gn", x, y}); return vfUFBool("Gn", x, y) }
	e.Pf = func(x int) bool { vfLog = append(vfLog, vfCall{"Pf", x, 0}); return vfUFBool("Pf", x) }
	e.Qf = func(x, y int) bool { vfLog = append(vfLog, vfCall{"Qf", x, y}); return vfUFBool("Qf", x, y) }
	e.FnU8 = func(x uint8) int { vfLog = append(vfLog, vfCall{"FnU8", int(x), 0}); return int(x) }
	e.FnF = func(x float64) float64 { vfLog = append(vfLog, vfCall{"FnF", 0, 0}); return x }
	e.FnI64 = func(x int64) int64 { vfLog = append(vfLog, vfCall{"FnI64", int(x), 0}); return x }
	e.Vf = func(f string, xs ...interface{}) interface{} { return len(xs) }
	e.Vv = func(xs ...interface{}) interface{} { return len(xs) }
	e.Pair = func(xs ...interface{}) interface{} { return xs } // keeps its argument slice
	return e
}

func (e *vfEnv) asMap() map[string]interface{} {
	return map[string]interface{}{
		"A": e.A, "B": e.B, "I64": e.I64, "U8": e.U8, "I8": e.I8, "F": e.F, "P": e.P, "Q": e.Q, "S": e.S, "T": e.T,
		"Xs": e.Xs, "Ys": e.Ys, "Xss": e.Xss, "Ss": e.Ss, "Any": e.Any, "M": e.M, "Ptr": e.Ptr, "Fn": e.Fn, "Gn": e.Gn, "Pf": e.Pf, "Qf": e.Qf, "Hf": e.Hf,
		"FnU8": e.FnU8, "FnF": e.FnF, "FnI64": e.FnI64, "Vf": e.Vf, "Vv": e.Vv, "Pair": e.Pair,
	}
}

// ------------------------------------------------------------------------------ reference evaluator

type vfRefFail struct{ why string }

type vfRef struct {
	env   *vfEnv
	elems []interface{} // innermost closure element last
}

func vfRefEval(n ast.Node, e *vfEnv) (out interface{}, failed bool, why string) {
	defer func() {
		if r := recover(); r != nil {
			if f, ok := r.(vfRefFail); ok {
				out, failed, why = nil, true, f.why
				return
			}
			panic(r)
		}
	}()
	r := &vfRef{env: e}
	return r.eval(n), false, ""
}

func vfFailf(why string) { panic(vfRefFail{why}) }

func (r *vfRef) ident(name string) interface{} {
	e := r.env
	switch name {
	case "A":
		return e.A
	case "B":
		return e.B
	case "I64":
		return e.I64
	case "U8":
		return e.U8
	case "I8":
		return e.I8
	case "F":
		return e.F
	case "P":
		return e.P
	case "Q":
		return e.Q
	case "S":
		return e.S
	case "T":
		return e.T
	case "Xs":
		return e.Xs
	case "Ys":
		return e.Ys
	case "Xss":
		return e.Xss
	case "Ss":
		return e.Ss
	case "Any":
		return e.Any
	case "M":
		return e.M
	case "Ptr":
		return e.Ptr
	}
	vfFailf("unknown name " + name)
	return nil
}

// numeric tower of the harness environment: uint8 < int < int8 < int64 < float64 (the rank order of C14)
func vfRank(v interface{}) int {
	switch v.(type) {
	case uint8:
		return 1
	case int:
		return 2
	case int8:
		return 3
	case int64:
		return 4
	case float64:
		return 5
	}
	return 0
}

func vfTo(v interface{}, rank int) interface{} {
	switch rank {
	case 1:
		return v.(uint8)
	case 2:
		switch x := v.(type) {
		case uint8:
			return int(x)
		case int:
			return x
		}
	case 3:
		switch x := v.(type) {
		case uint8:
			return int8(x)
		case int:
			return int8(x)
		case int8:
			return x
		}
	case 4:
		switch x := v.(type) {
		case uint8:
			return int64(x)
		case int:
			return int64(x)
		case int8:
			return int64(x)
		case int64:
			return x
		}
	case 5:
		switch x := v.(type) {
		case uint8:
			return float64(x)
		case int:
			return float64(x)
		case int8:
			return float64(x)
		case int64:
			return float64(x)
		case float64:
			return x
		}
	}
	panic("vfTo")
}

func (r *vfRef) arith(op string, a, b interface{}) interface{} {
	ra, rb := vfRank(a), vfRank(b)
	if ra == 0 || rb == 0 {
		vfFailf("non-numeric operand of " + op)
	}
	k := ra
	if rb > k {
		k = rb
	}
	a, b = vfTo(a, k), vfTo(b, k)
	switch k {
	case 1:
		x, y := a.(uint8), b.(uint8)
		switch op {
		case "+":
			return x + y
		case "-":
			return x - y
		case "*":
			return x * y
		case "/":
			if y == 0 {
				vfFailf("division by zero")
			}
			return x / y
		case "%":
			if y == 0 {
				vfFailf("division by zero")
			}
			return x % y
		case "<":
			return x < y
		case "<=":
			return x <= y
		case ">":
			return x > y
		case ">=":
			return x >= y
		case "==":
			return x == y
		}
	case 2:
		x, y := a.(int), b.(int)
		switch op {
		case "+":
			return x + y
		case "-":
			return x - y
		case "*":
			return x * y
		case "/":
			if y == 0 {
				vfFailf("division by zero")
			}
			return x / y
		case "%":
			if y == 0 {
				vfFailf("division by zero")
			}
			return x % y
		case "<":
			return x < y
		case "<=":
			return x <= y
		case ">":
			return x > y
		case ">=":
			return x >= y
		case "==":
			return x == y
		}
	case 3:
		x, y := a.(int8), b.(int8)
		switch op {
		case "+":
			return x + y
		case "-":
			return x - y
		case "*":
			return x * y
		case "/":
			if y == 0 {
				vfFailf("division by zero")
			}
			return x / y
		case "%":
			if y == 0 {
				vfFailf("division by zero")
			}
			return x % y
		case "<":
			return x < y
		case "<=":
			return x <= y
		case ">":
			return x > y
		case ">=":
			return x >= y
		case "==":
			return x == y
		}
	case 4:
		x, y := a.(int64), b.(int64)
		switch op {
		case "+":
			return x + y
		case "-":
			return x - y
		case "*":
			return x * y
		case "/":
			if y == 0 {
				vfFailf("division by zero")
			}
			return x / y
		case "%":
			if y == 0 {
				vfFailf("division by zero")
			}
			return x % y
		case "<":
			return x < y
		case "<=":
			return x <= y
		case ">":
			return x > y
		case ">=":
			return x >= y
		case "==":
			return x == y
		}
	case 5:
		x, y := a.(float64), b.(float64)
		switch op {
		case "+":
			return x + y
		case "-":
			return x - y
		case "*":
			return x * y
		case "/":
			return x / y
		case "<":
			return x < y
		case "<=":
			return x <= y
		case ">":
			return x > y
		case ">=":
			return x >= y
		case "==":
			return x == y
		case "%":
			vfFailf("% on floats")
		}
	}
	panic("arith " + op)
}

func vfIsNilValue(v interface{}) bool {
	switch x := v.(type) {
	case nil:
		return true
	case *vfNode:
		return x == nil
	case []int:
		return x == nil
	case []interface{}:
		return x == nil
	case []string:
		return x == nil
	case [][]int:
		return x == nil
	case map[string]int:
		return x == nil
	case map[string]interface{}:
		return x == nil
	}
	return false
}

// vfSeq views a sequence value as a list of elements.
func vfSeq(v interface{}) ([]interface{}, bool) {
	switch x := v.(type) {
	case []int:
		out := make([]interface{}, len(x))
		for i, e := range x {
			out[i] = e
		}
		return out, true
	case []interface{}:
		return x, true
	case []string:
		out := make([]interface{}, len(x))
		for i, e := range x {
			out[i] = e
		}
		return out, true
	case [][]int:
		out := make([]interface{}, len(x))
		for i, e := range x {
			out[i] = e
		}
		return out, true
	}
	return nil, false
}

func (r *vfRef) equal(a, b interface{}) bool {
	if vfRank(a) > 0 && vfRank(b) > 0 {
		return r.arith("==", a, b).(bool)
	}
	if vfIsNilValue(a) && vfIsNilValue(b) {
		return true
	}
	switch x := a.(type) {
	case bool:
		y, ok := b.(bool)
		return ok && x == y
	case string:
		y, ok := b.(string)
		return ok && x == y
	case *vfNode:
		y, ok := b.(*vfNode)
		return ok && x == y
	}
	if xs, ok := vfSeq(a); ok {
		if ys, ok := vfSeq(b); ok {
			if len(xs) != len(ys) {
				return false
			}
			for i := range xs {
				if !r.equal(xs[i], ys[i]) {
					return false
				}
			}
			return true
		}
	}
	return false
}

func (r *vfRef) boolean(v interface{}) bool {
	b, ok := v.(bool)
	if !ok {
		vfFailf("non-bool operand")
	}
	return b
}

func (r *vfRef) str(v interface{}) string {
	s, ok := v.(string)
	if !ok {
		vfFailf("non-string operand")
	}
	return s
}

func (r *vfRef) integer(v interface{}) int {
	switch x := v.(type) {
	case int:
		return x
	case uint8:
		return int(x)
	case int64:
		return int(x)
	case int8:
		return int(x)
	}
	vfFailf("non-integer operand")
	return 0
}

func (r *vfRef) eval(n ast.Node) interface{} {
	switch x := n.(type) {
	case *ast.NilNode:
		return nil
	case *ast.IntegerNode:
		return x.Value
	case *ast.FloatNode:
		return x.Value
	case *ast.BoolNode:
		return x.Value
	case *ast.StringNode:
		return x.Value
	case *ast.IdentifierNode:
		return r.ident(x.Value)
	case *ast.UnaryNode:
		v := r.eval(x.Node)
		switch x.Operator {
		case "not", "!":
			return !r.boolean(v)
		case "+":
			if vfRank(v) == 0 {
				vfFailf("unary + on non-number")
			}
			return v
		case "-":
			switch y := v.(type) {
			case int:
				return -y
			case int64:
				return -y
			case uint8:
				return -y
			case int8:
				return -y
			case float64:
				return -y
			}
			vfFailf("unary - on non-number")
		}
	case *ast.BinaryNode:
		return r.binary(x)
	case *ast.MatchesNode:
		s := r.str(r.eval(x.Left))
		p := r.str(r.eval(x.Right))
		ok, err := regexp.MatchString(p, s)
		if err != nil {
			vfFailf("bad pattern")
		}
		return ok
	case *ast.PropertyNode:
		base := r.eval(x.Node)
		return r.property(base, x.Property, x.NilSafe)
	case *ast.IndexNode:
		base := r.eval(x.Node)
		idx := r.eval(x.Index)
		return r.index(base, idx)
	case *ast.SliceNode:
		return r.slice(x)
	case *ast.MethodNode:
		base := r.eval(x.Node)
		args := make([]interface{}, len(x.Arguments))
		for i, a := range x.Arguments {
			args[i] = r.eval(a)
		}
		return r.method(base, x.Method, args, x.NilSafe)
	case *ast.FunctionNode:
		args := make([]interface{}, len(x.Arguments))
		for i, a := range x.Arguments {
			args[i] = r.eval(a)
		}
		return r.call(x.Name, args)
	case *ast.BuiltinNode:
		return r.builtin(x)
	case *ast.ClosureNode:
		return r.eval(x.Node)
	case *ast.PointerNode:
		if len(r.elems) == 0 {
			vfFailf("# outside closure")
		}
		return r.elems[len(r.elems)-1]
	case *ast.ConditionalNode:
		if r.boolean(r.eval(x.Cond)) {
			return r.eval(x.Exp1)
		}
		return r.eval(x.Exp2)
	case *ast.ArrayNode:
		out := make([]interface{}, len(x.Nodes))
		for i, e := range x.Nodes {
			out[i] = r.eval(e)
		}
		return out
	case *ast.MapNode:
		out := map[string]interface{}{}
		for _, p := range x.Pairs {
			pair := p.(*ast.PairNode)
			k := r.str(r.eval(pair.Key))
			out[k] = r.eval(pair.Value)
		}
		return out
	}
	vfFailf("unsupported node")
	return nil
}

func (r *vfRef) binary(x *ast.BinaryNode) interface{} {
	switch x.Operator {
	case "or", "||":
		if r.boolean(r.eval(x.Left)) {
			return true
		}
		return r.boolean(r.eval(x.Right))
	case "and", "&&":
		if !r.boolean(r.eval(x.Left)) {
			return false
		}
		return r.boolean(r.eval(x.Right))
	}
	a := r.eval(x.Left)
	b := r.eval(x.Right)
	switch x.Operator {
	case "==":
		return r.equal(a, b)
	case "!=":
		return !r.equal(a, b)
	case "<", "<=", ">", ">=":
		if sa, ok := a.(string); ok {
			sb := r.str(b)
			switch x.Operator {
			case "<":
				return sa < sb
			case "<=":
				return sa <= sb
			case ">":
				return sa > sb
			default:
				return sa >= sb
			}
		}
		return r.arith(x.Operator, a, b)
	case "+":
		if sa, ok := a.(string); ok {
			return sa + r.str(b)
		}
		return r.arith("+", a, b)
	case "-", "*", "/", "%":
		return r.arith(x.Operator, a, b)
	case "**":
		if vfRank(a) == 0 || vfRank(b) == 0 {
			vfFailf("** on non-number")
		}
		return math.Pow(vfTo(a, 5).(float64), vfTo(b, 5).(float64))
	case "contains":
		return strings.Contains(r.str(a), r.str(b))
	case "startsWith":
		return strings.HasPrefix(r.str(a), r.str(b))
	case "endsWith":
		return strings.HasSuffix(r.str(a), r.str(b))
	case "..":
		lo, hi := r.integer(a), r.integer(b)
		out := []int{}
		if hi >= lo && uint64(hi)-uint64(lo) >= 1<<20 {
			vfFailf("budget")
		}
		for i := lo; i <= hi && hi >= lo; i++ {
			out = append(out, i)
			if i == hi {
				break
			}
		}
		return out
	case "in", "not in":
		res := r.member(a, b)
		if x.Operator == "not in" {
			return !res
		}
		return res
	}
	vfFailf("unknown operator " + x.Operator)
	return nil
}

func (r *vfRef) member(needle, coll interface{}) bool {
	if coll == nil {
		return false
	}
	if xs, ok := vfSeq(coll); ok {
		for _, e := range xs {
			if r.equal(e, needle) {
				return true
			}
		}
		return false
	}
	switch m := coll.(type) {
	case map[string]int:
		_, ok := m[r.str(needle)]
		return ok
	case map[string]interface{}:
		_, ok := m[r.str(needle)]
		return ok
	case *vfNode:
		if m == nil {
			return false
		}
		name := r.str(needle)
		return name == "V" || name == "Next"
	}
	vfFailf("in on non-collection")
	return false
}

func (r *vfRef) property(base interface{}, name string, nilsafe bool) interface{} {
	switch b := base.(type) {
	case *vfNode:
		if b == nil {
			if nilsafe {
				return nil
			}
			vfFailf("property of nil pointer")
		}
		switch name {
		case "V":
			return b.V
		case "Next":
			return b.Next
		}
	case map[string]int:
		return b[name]
	case map[string]interface{}:
		return b[name]
	case nil:
		if nilsafe {
			return nil
		}
	}
	if nilsafe {
		return nil
	}
	vfFailf("no property " + name)
	return nil
}

func (r *vfRef) index(base, idx interface{}) interface{} {
	switch b := base.(type) {
	case []int:
		i := r.integer(idx)
		if i < 0 || i >= len(b) {
			vfFailf("index out of range")
		}
		return b[i]
	case []interface{}:
		i := r.integer(idx)
		if i < 0 || i >= len(b) {
			vfFailf("index out of range")
		}
		return b[i]
	case string:
		i := r.integer(idx)
		if i < 0 || i >= len(b) {
			vfFailf("index out of range")
		}
		return b[i]
	case map[string]int:
		return b[r.str(idx)]
	case map[string]interface{}:
		return b[r.str(idx)]
	case *vfNode:
		return r.property(b, r.str(idx), false)
	}
	if xs, ok := vfSeq(base); ok {
		i := r.integer(idx)
		if i < 0 || i >= len(xs) {
			vfFailf("index out of range")
		}
		return xs[i]
	}
	vfFailf("index of non-collection")
	return nil
}

func (r *vfRef) slice(x *ast.SliceNode) interface{} {
	base := r.eval(x.Node)
	n := 0
	switch b := base.(type) {
	case []int:
		n = len(b)
	case []interface{}:
		n = len(b)
	case string:
		n = len(b)
	default:
		if xs, ok := vfSeq(base); ok {
			n = len(xs)
		} else {
			vfFailf("slice of non-sequence")
		}
	}
	// operand order of evaluation: node, to, from (unobservable unless both call functions; the
	// property fixes left-to-right for calls, so templates keep calls out of slice bounds)
	from, to := 0, n
	if x.From != nil {
		from = r.integer(r.eval(x.From))
	}
	if x.To != nil {
		to = r.integer(r.eval(x.To))
	}
	if to > n {
		to = n
	}
	if from > to {
		from = to
	}
	if from < 0 || to < 0 {
		vfFailf("negative slice bound")
	}
	switch b := base.(type) {
	case []int:
		return b[from:to]
	case []interface{}:
		return b[from:to]
	case string:
		return b[from:to]
	}
	xs, _ := vfSeq(base)
	return xs[from:to]
}

func (r *vfRef) call(name string, args []interface{}) interface{} {
	e := r.env
	switch name {
	case "Fn":
		return e.Fn(args[0].(int))
	case "Hf":
		return e.Hf(args[0].(int))
	case "Gn":
		return e.Gn(args[0].(int), args[1].(int))
	case "Pf":
		return e.Pf(args[0].(int))
	case "Qf":
		return e.Qf(args[0].(int), args[1].(int))
	case "Twice":
		return e.Twice(args[0].(int))
	case "PtrAdd":
		return e.PtrAdd(args[0].(int))
	case "FnU8":
		return e.FnU8(args[0].(uint8))
	case "FnI64":
		return e.FnI64(args[0].(int64))
	case "FnF":
		return e.FnF(args[0].(float64))
	case "Pair":
		return append([]interface{}{}, args...)
	case "Vv":
		return len(args)
	case "Vf":
		return len(args) - 1
	}
	vfFailf("unknown function " + name)
	return nil
}

func (r *vfRef) method(base interface{}, name string, args []interface{}, nilsafe bool) interface{} {
	vfFailf("methods on members are not part of the harness environment")
	return nil
}

func (r *vfRef) builtin(x *ast.BuiltinNode) interface{} {
	coll := r.eval(x.Arguments[0])
	if x.Name == "len" {
		switch c := coll.(type) {
		case string:
			return len(c)
		case []int:
			return len(c)
		case []interface{}:
			return len(c)
		case map[string]int:
			return len(c)
		case map[string]interface{}:
			return len(c)
		}
		if xs, ok := vfSeq(coll); ok {
			return len(xs)
		}
		vfFailf("len of non-collection")
	}
	xs, ok := vfSeq(coll)
	if !ok {
		vfFailf("builtin on non-array")
	}
	body := x.Arguments[1]
	each := func(e interface{}) interface{} {
		r.elems = append(r.elems, e)
		v := r.eval(body)
		r.elems = r.elems[:len(r.elems)-1]
		return v
	}
	switch x.Name {
	case "all":
		for _, e := range xs {
			if !r.boolean(each(e)) {
				return false
			}
		}
		return true
	case "none":
		for _, e := range xs {
			if r.boolean(each(e)) {
				return false
			}
		}
		return true
	case "any":
		for _, e := range xs {
			if r.boolean(each(e)) {
				return true
			}
		}
		return false
	case "one":
		n := 0
		for _, e := range xs {
			if r.boolean(each(e)) {
				n++
			}
		}
		return n == 1
	case "count":
		n := 0
		for _, e := range xs {
			if r.boolean(each(e)) {
				n++
			}
		}
		return n
	case "filter":
		out := []interface{}{}
		for _, e := range xs {
			if r.boolean(each(e)) {
				out = append(out, e)
			}
		}
		return out
	case "map":
		out := make([]interface{}, 0, len(xs))
		for _, e := range xs {
			out = append(out, each(e))
		}
		return out
	}
	vfFailf("unknown builtin " + x.Name)
	return nil
}

// vfSame: equality of observable results (numbers equal in kind and value, sequences element by element,
// maps entry by entry, pointers by identity).
func vfSame(a, b interface{}) bool {
	switch x := a.(type) {
	case nil:
		return vfIsNilValue(b) && vfKindOfNil(b) == ""
	case bool:
		y, ok := b.(bool)
		return ok && x == y
	case int:
		y, ok := b.(int)
		return ok && x == y
	case int64:
		y, ok := b.(int64)
		return ok && x == y
	case uint8:
		y, ok := b.(uint8)
		return ok && x == y
	case float64:
		y, ok := b.(float64)
		if !ok {
			return false
		}
		if math.Float64bits(x) == math.Float64bits(y) {
			return true
		}
		return x == y || (x != x && y != y)
	case string:
		y, ok := b.(string)
		return ok && x == y
	case *vfNode:
		y, ok := b.(*vfNode)
		return ok && x == y
	case vfLevel:
		y, ok := b.(vfLevel)
		return ok && x == y
	case int8:
		y, ok := b.(int8)
		return ok && x == y
	case map[string]int:
		y, ok := b.(map[string]int)
		if !ok || len(x) != len(y) {
			return false
		}
		for k, v := range x {
			if w, ok := y[k]; !ok || v != w {
				return false
			}
		}
		return true
	case map[string]interface{}:
		y, ok := b.(map[string]interface{})
		if !ok || len(x) != len(y) {
			return false
		}
		for k, v := range x {
			if w, ok := y[k]; !ok || !vfSame(v, w) {
				return false
			}
		}
		return true
	}
	if xs, ok := vfSeq(a); ok {
		ys, ok := vfSeq(b)
		if !ok || len(xs) != len(ys) {
			return false
		}
		for i := range xs {
			if !vfSame(xs[i], ys[i]) {
				return false
			}
		}
		return true
	}
	return false
}

func vfKindOfNil(v interface{}) string {
	switch v.(type) {
	case nil:
		return ""
	case *vfNode:
		return "ptr"
	}
	return "other"
}

func vfSameLog(a, b []vfCall) bool {
	if len(a) != len(b) {
		return false
	}
	for i := range a {
		if a[i] != b[i] {
			return false
		}
	}
	return true
}
