package vm

import (
	"github.com/antonmedv/expr/file"
)

// ---------------------------------------------------------------------------------
// C06 (memory budget) and C07 (VM reuse): hand-assembled programs made only of the
// allocating instructions, run on the REAL dispatch loop; operands, budget and the
// choice/order of instructions are symbolic.

func vfProg(code []byte, consts []interface{}) *Program {
	return &Program{Source: file.NewSource("x"), Locations: map[int]file.Location{}, Constants: consts, Bytecode: code}
}

type vfAsm struct {
	code   []byte
	consts []interface{}
}

func (a *vfAsm) push(v interface{}) {
	a.consts = append(a.consts, v)
	n := len(a.consts) - 1
	a.code = append(a.code, OpPush, byte(n), byte(n>>8))
}

// vfRangeCount is the reference: number of elements of a..b (mathematically), saturated at 2^63.
func vfRangeCount(a, b int) uint64 {
	if b < a {
		return 0
	}
	d := uint64(b) - uint64(a) // exact: b >= a
	if d >= 1<<63 {
		return 1 << 63
	}
	return d + 1
}

// vfEmitAlloc appends one allocating construct (chosen symbolically) and returns the number of
// collection elements its evaluation creates. sizes of literals are concrete per path (0..3),
// range bounds are symbolic 64-bit ints.
func vfEmitAlloc(a *vfAsm, tag string, kind int) uint64 {
	switch kind {
	case 0: // a..b
		lo, hi := vfInt(tag+".lo"), vfInt(tag+".hi")
		n := vfRangeCount(lo, hi)
		// bound on the loop inside makeRange: ranges that the budget admits have at most maxRange
		// elements on explored paths (larger ones are explored only if they are refused)
		a.push(lo)
		a.push(hi)
		a.code = append(a.code, OpRange, OpPop)
		return n
	case 1: // array literal with n elements
		n := vfChoice(tag+".n", 4)
		for i := 0; i < n; i++ {
			a.code = append(a.code, OpTrue)
		}
		a.push(n)
		a.code = append(a.code, OpArray, OpPop)
		return uint64(n)
	default: // map literal with n pairs (distinct keys)
		n := vfChoice(tag+".n", 3)
		keys := []string{"k0", "k1", "k2"}
		for i := 0; i < n; i++ {
			a.push(keys[i])
			a.code = append(a.code, OpTrue)
		}
		a.push(n)
		a.code = append(a.code, OpMap, OpPop)
		return uint64(n)
	}
}

func vfIsBudgetErr(err error) bool {
	if err == nil {
		return false
	}
	fe, ok := err.(*file.Error)
	return ok && fe.Message == "memory budget exceeded"
}

// HarnessC06Seq: k allocating constructs in one run (k chosen by prefix: 1..3), arbitrary budget.
//   success  <=>  total elements created < budget
//   failure is the budget error and nothing else
func HarnessC06Seq() {
	k := 1 + vfChoice("k", 3)
	var kinds [3]int
	for i := 0; i < k; i++ {
		kinds[i] = vfChoice("kind", 3)
	}
	limit := vfInt("limit")
	vfAssume(limit >= 1 && limit <= 1<<20)
	a := &vfAsm{}
	var total uint64
	for i := 0; i < k; i++ {
		n := vfEmitAlloc(a, "op"+string(rune('0'+i)), kinds[i])
		// keep the native allocation small on paths that are admitted: a range the budget admits is < limit
		// but the interpreter unrolls makeRange's loop, so explored admitted ranges are <= 8 elements.
		vfAssume(n <= 8 || n >= uint64(limit))
		if total < 1<<63 {
			total += n
		}
		if total > 1<<63 {
			total = 1 << 63
		}
	}
	a.code = append(a.code, OpTrue)
	MemoryBudget = limit
	vm := &VM{}
	out, err := vm.Run(vfProg(a.code, a.consts), nil)
	vfReach("c06.seq.ran")
	if err == nil {
		vfReach("c06.seq.ok")
		vfAssert(total < uint64(limit), "c06.completed-run-stayed-below-budget")
		vfAssert(out == true, "c06.result")
	} else {
		vfReach("c06.seq.err")
		vfAssert(vfIsBudgetErr(err), "c06.only-budget-failure")
		vfAssert(total >= uint64(limit), "c06.refused-only-when-needed")
	}
}

// HarnessC06MakeRange: contract of makeRange for all bounds with at most 8 elements (and all empty/descending ones).
func HarnessC06MakeRange() {
	lo, hi := vfInt("lo"), vfInt("hi")
	n := vfRangeCount(lo, hi)
	vfAssume(n <= 8)
	r := makeRange(lo, hi)
	vfReach("c06.makerange")
	vfAssert(uint64(len(r)) == n, "c06.makerange.len")
	for i := range r {
		vfAssert(r[i] == lo+i, "c06.makerange.elem")
	}
}

// ---------------------------------------------------------------------------------
// C07

// HarnessC07Prologue: a VM value whose every field is arbitrary behaves like a fresh one.
func HarnessC07Prologue() {
	k := 1 + vfChoice("k", 2)
	var kinds [2]int
	for i := 0; i < k; i++ {
		kinds[i] = vfChoice("kind", 3)
	}
	limit := vfInt("limit")
	vfAssume(limit >= 1 && limit <= 1<<20)
	a := &vfAsm{}
	for i := 0; i < k; i++ {
		n := vfEmitAlloc(a, "op"+string(rune('0'+i)), kinds[i])
		vfAssume(n <= 8 || n >= uint64(limit))
	}
	// make the result depend on leftover state if the prologue does not clear it
	a.code = append(a.code, OpTrue)
	MemoryBudget = limit
	p := vfProg(a.code, a.consts)

	used := &VM{ip: vfInt("ip"), pp: vfInt("pp"), memory: vfInt("memory"), limit: vfInt("oldlimit")}
	vfAssume(used.memory >= 0) // a counter of created elements is never negative after real runs (C06)
	switch vfChoice("stack", 3) {
	case 1:
		used.stack = []interface{}{vfInt("s0")}
	case 2:
		used.stack = make([]interface{}, 2, 4)
		used.stack[0], used.stack[1] = false, vfInt("s1")
	}
	switch vfChoice("scopes", 3) {
	case 1:
		used.scopes = []Scope{{"i": vfInt("i"), "count": 7}}
	case 2:
		used.scopes = make([]Scope, 0, 2)
	}
	used.bytecode = []byte{OpPop, OpPop, OpPop}
	used.constants = []interface{}{vfInt("c0")}

	out1, err1 := used.Run(p, nil)
	fresh := &VM{}
	out2, err2 := fresh.Run(p, nil)
	vfReach("c07.prologue.ran")
	vfAssert((err1 == nil) == (err2 == nil), "c07.same-outcome-as-fresh")
	if err1 == nil && err2 == nil {
		vfAssert(out1 == out2, "c07.same-result-as-fresh")
		vfAssert(len(used.stack) == len(fresh.stack) && len(used.scopes) == len(fresh.scopes), "c07.same-depths")
	} else if err1 != nil && err2 != nil {
		vfAssert(vfIsBudgetErr(err1) == vfIsBudgetErr(err2), "c07.same-error")
	}
}

// HarnessC07History: two real runs on one VM (the first may succeed, or fail midway with values and a
// scope left behind); the second must behave as on a fresh VM.
func HarnessC07History() {
	first := vfChoice("first", 3)
	k0, k1, k2 := vfChoice("kind", 3), vfChoice("kind", 3), vfChoice("kind", 3)
	limit := vfInt("limit")
	vfAssume(limit >= 1 && limit <= 1<<20)
	MemoryBudget = limit
	a1 := &vfAsm{}
	switch first {
	case 0:
		n := vfEmitAlloc(a1, "h0", k0)
		vfAssume(n <= 8 || n >= uint64(limit))
		a1.code = append(a1.code, OpTrue)
	case 1: // fails midway inside an open scope with operands on the stack
		a1.code = append(a1.code, OpTrue, OpBegin, OpFalse)
		a1.push("str")
		a1.code = append(a1.code, OpNot) // type panic: string is not bool
	default: // two allocations
		n := vfEmitAlloc(a1, "h0", k0)
		vfAssume(n <= 8 || n >= uint64(limit))
		m := vfEmitAlloc(a1, "h1", k1)
		vfAssume(m <= 8 || m >= uint64(limit))
		a1.code = append(a1.code, OpTrue)
	}
	a2 := &vfAsm{}
	n2 := vfEmitAlloc(a2, "r0", k2)
	vfAssume(n2 <= 8 || n2 >= uint64(limit))
	a2.code = append(a2.code, OpFalse)
	p1, p2 := vfProg(a1.code, a1.consts), vfProg(a2.code, a2.consts)

	used := &VM{}
	used.Run(p1, nil)
	out1, err1 := used.Run(p2, nil)
	fresh := &VM{}
	out2, err2 := fresh.Run(p2, nil)
	vfReach("c07.history.ran")
	vfAssert((err1 == nil) == (err2 == nil), "c07.history.same-outcome-as-fresh")
	if err1 == nil && err2 == nil {
		vfAssert(out1 == out2, "c07.history.same-result-as-fresh")
	}
}
