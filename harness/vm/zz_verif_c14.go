package vm

import "math"

// ---------------------------------------------------------------------------------
// C14: mixed-kind arithmetic follows one promotion rule.
// kinds are numbered in rank order (the order of checker.typeWeight and of the generator):
//   0 uint 1 uint8 2 uint16 3 uint32 4 uint64 5 int 6 int8 7 int16 8 int32 9 int64 10 float32 11 float64

func vfNum(kind int, name string) interface{} {
	switch kind {
	case 0:
		return vfUint(name)
	case 1:
		return vfUint8(name)
	case 2:
		return vfUint16(name)
	case 3:
		return vfUint32(name)
	case 4:
		return vfUint64(name)
	case 5:
		return vfInt(name)
	case 6:
		return vfInt8(name)
	case 7:
		return vfInt16(name)
	case 8:
		return vfInt32(name)
	case 9:
		return vfInt64(name)
	case 10:
		return vfFloat32(name)
	default:
		return vfFloat64(name)
	}
}

// vfBits reads an integer operand as 64 bits, extended by its own signedness
// (Go integer conversion = extension by the source signedness, then truncation).
func vfBits(v interface{}) (bits uint64, signed bool) {
	switch x := v.(type) {
	case uint:
		return uint64(x), false
	case uint8:
		return uint64(x), false
	case uint16:
		return uint64(x), false
	case uint32:
		return uint64(x), false
	case uint64:
		return x, false
	case int:
		return uint64(x), true
	case int8:
		return uint64(x), true
	case int16:
		return uint64(x), true
	case int32:
		return uint64(x), true
	case int64:
		return uint64(x), true
	}
	panic("vfBits: not an integer")
}

// vfPromote converts v (of kind k) to kind to (to >= k in rank) by Go conversion rules.
func vfPromote(v interface{}, k, to int) interface{} {
	if k == to {
		return v
	}
	if k == 10 { // float32 -> float64
		return float64(v.(float32))
	}
	bits, signed := vfBits(v)
	switch to {
	case 0:
		return uint(bits)
	case 1:
		return uint8(bits)
	case 2:
		return uint16(bits)
	case 3:
		return uint32(bits)
	case 4:
		return uint64(bits)
	case 5:
		return int(bits)
	case 6:
		return int8(bits)
	case 7:
		return int16(bits)
	case 8:
		return int32(bits)
	case 9:
		return int64(bits)
	case 10:
		if signed {
			return float32(int64(bits))
		}
		return float32(bits)
	default:
		if signed {
			return float64(int64(bits))
		}
		return float64(bits)
	}
}

// vfRefOp applies the Go operator op at kind k to two operands already of kind k.
// ops: 0 == 1 < 2 > 3 <= 4 >= 5 + 6 - 7 * 8 / 9 %
// returns (result, failed)
func vfRefOp(op, k int, a, b interface{}) (res interface{}, failed bool) {
	switch k {
	case 0:
		x, y := a.(uint), b.(uint)
		switch op {
		case 0:
			return x == y, false
		case 1:
			return x < y, false
		case 2:
			return x > y, false
		case 3:
			return x <= y, false
		case 4:
			return x >= y, false
		case 5:
			return x + y, false
		case 6:
			return x - y, false
		case 7:
			return x * y, false
		case 8:
			if y == 0 {
				return nil, true
			}
			return x / y, false
		case 9:
			if y == 0 {
				return nil, true
			}
			return x % y, false
		}
	case 1:
		x, y := a.(uint8), b.(uint8)
		switch op {
		case 0:
			return x == y, false
		case 1:
			return x < y, false
		case 2:
			return x > y, false
		case 3:
			return x <= y, false
		case 4:
			return x >= y, false
		case 5:
			return x + y, false
		case 6:
			return x - y, false
		case 7:
			return x * y, false
		case 8:
			if y == 0 {
				return nil, true
			}
			return x / y, false
		case 9:
			if y == 0 {
				return nil, true
			}
			return x % y, false
		}
	case 2:
		x, y := a.(uint16), b.(uint16)
		switch op {
		case 0:
			return x == y, false
		case 1:
			return x < y, false
		case 2:
			return x > y, false
		case 3:
			return x <= y, false
		case 4:
			return x >= y, false
		case 5:
			return x + y, false
		case 6:
			return x - y, false
		case 7:
			return x * y, false
		case 8:
			if y == 0 {
				return nil, true
			}
			return x / y, false
		case 9:
			if y == 0 {
				return nil, true
			}
			return x % y, false
		}
	case 3:
		x, y := a.(uint32), b.(uint32)
		switch op {
		case 0:
			return x == y, false
		case 1:
			return x < y, false
		case 2:
			return x > y, false
		case 3:
			return x <= y, false
		case 4:
			return x >= y, false
		case 5:
			return x + y, false
		case 6:
			return x - y, false
		case 7:
			return x * y, false
		case 8:
			if y == 0 {
				return nil, true
			}
			return x / y, false
		case 9:
			if y == 0 {
				return nil, true
			}
			return x % y, false
		}
	case 4:
		x, y := a.(uint64), b.(uint64)
		switch op {
		case 0:
			return x == y, false
		case 1:
			return x < y, false
		case 2:
			return x > y, false
		case 3:
			return x <= y, false
		case 4:
			return x >= y, false
		case 5:
			return x + y, false
		case 6:
			return x - y, false
		case 7:
			return x * y, false
		case 8:
			if y == 0 {
				return nil, true
			}
			return x / y, false
		case 9:
			if y == 0 {
				return nil, true
			}
			return x % y, false
		}
	case 5:
		x, y := a.(int), b.(int)
		switch op {
		case 0:
			return x == y, false
		case 1:
			return x < y, false
		case 2:
			return x > y, false
		case 3:
			return x <= y, false
		case 4:
			return x >= y, false
		case 5:
			return x + y, false
		case 6:
			return x - y, false
		case 7:
			return x * y, false
		case 8:
			if y == 0 {
				return nil, true
			}
			return x / y, false
		case 9:
			if y == 0 {
				return nil, true
			}
			return x % y, false
		}
	case 6:
		x, y := a.(int8), b.(int8)
		switch op {
		case 0:
			return x == y, false
		case 1:
			return x < y, false
		case 2:
			return x > y, false
		case 3:
			return x <= y, false
		case 4:
			return x >= y, false
		case 5:
			return x + y, false
		case 6:
			return x - y, false
		case 7:
			return x * y, false
		case 8:
			if y == 0 {
				return nil, true
			}
			return x / y, false
		case 9:
			if y == 0 {
				return nil, true
			}
			return x % y, false
		}
	case 7:
		x, y := a.(int16), b.(int16)
		switch op {
		case 0:
			return x == y, false
		case 1:
			return x < y, false
		case 2:
			return x > y, false
		case 3:
			return x <= y, false
		case 4:
			return x >= y, false
		case 5:
			return x + y, false
		case 6:
			return x - y, false
		case 7:
			return x * y, false
		case 8:
			if y == 0 {
				return nil, true
			}
			return x / y, false
		case 9:
			if y == 0 {
				return nil, true
			}
			return x % y, false
		}
	case 8:
		x, y := a.(int32), b.(int32)
		switch op {
		case 0:
			return x == y, false
		case 1:
			return x < y, false
		case 2:
			return x > y, false
		case 3:
			return x <= y, false
		case 4:
			return x >= y, false
		case 5:
			return x + y, false
		case 6:
			return x - y, false
		case 7:
			return x * y, false
		case 8:
			if y == 0 {
				return nil, true
			}
			return x / y, false
		case 9:
			if y == 0 {
				return nil, true
			}
			return x % y, false
		}
	case 9:
		x, y := a.(int64), b.(int64)
		switch op {
		case 0:
			return x == y, false
		case 1:
			return x < y, false
		case 2:
			return x > y, false
		case 3:
			return x <= y, false
		case 4:
			return x >= y, false
		case 5:
			return x + y, false
		case 6:
			return x - y, false
		case 7:
			return x * y, false
		case 8:
			if y == 0 {
				return nil, true
			}
			return x / y, false
		case 9:
			if y == 0 {
				return nil, true
			}
			return x % y, false
		}
	case 10:
		x, y := a.(float32), b.(float32)
		switch op {
		case 0:
			return x == y, false
		case 1:
			return x < y, false
		case 2:
			return x > y, false
		case 3:
			return x <= y, false
		case 4:
			return x >= y, false
		case 5:
			return x + y, false
		case 6:
			return x - y, false
		case 7:
			return x * y, false
		case 8:
			return x / y, false
		case 9:
			return nil, true // % is not defined on floats
		}
	case 11:
		x, y := a.(float64), b.(float64)
		switch op {
		case 0:
			return x == y, false
		case 1:
			return x < y, false
		case 2:
			return x > y, false
		case 3:
			return x <= y, false
		case 4:
			return x >= y, false
		case 5:
			return x + y, false
		case 6:
			return x - y, false
		case 7:
			return x * y, false
		case 8:
			return x / y, false
		case 9:
			return nil, true
		}
	}
	panic("vfRefOp: bad kind/op")
}

// vfSame: equal dynamic kind and equal value (floats: same value or both NaN).
func vfSame(a, b interface{}) bool {
	switch x := a.(type) {
	case bool:
		y, ok := b.(bool)
		return ok && x == y
	case uint:
		y, ok := b.(uint)
		return ok && x == y
	case uint8:
		y, ok := b.(uint8)
		return ok && x == y
	case uint16:
		y, ok := b.(uint16)
		return ok && x == y
	case uint32:
		y, ok := b.(uint32)
		return ok && x == y
	case uint64:
		y, ok := b.(uint64)
		return ok && x == y
	case int:
		y, ok := b.(int)
		return ok && x == y
	case int8:
		y, ok := b.(int8)
		return ok && x == y
	case int16:
		y, ok := b.(int16)
		return ok && x == y
	case int32:
		y, ok := b.(int32)
		return ok && x == y
	case int64:
		y, ok := b.(int64)
		return ok && x == y
	case float32:
		y, ok := b.(float32)
		if ok && math.Float32bits(x) == math.Float32bits(y) {
			return true // identical bit patterns (identical terms need no solver query)
		}
		return ok && (x == y || (x != x && y != y))
	case float64:
		y, ok := b.(float64)
		if ok && math.Float64bits(x) == math.Float64bits(y) {
			return true
		}
		return ok && (x == y || (x != x && y != y))
	}
	return false
}

func vfCallHelper(op int, a, b interface{}) (res interface{}, failed bool) {
	defer func() {
		if r := recover(); r != nil {
			res, failed = nil, true
		}
	}()
	switch op {
	case 0:
		return equal(a, b), false
	case 1:
		return less(a, b), false
	case 2:
		return more(a, b), false
	case 3:
		return lessOrEqual(a, b), false
	case 4:
		return moreOrEqual(a, b), false
	case 5:
		return add(a, b), false
	case 6:
		return subtract(a, b), false
	case 7:
		return multiply(a, b), false
	case 8:
		return divide(a, b), false
	default:
		return modulo(a, b), false
	}
}

// HarnessC14Binary: every generated helper x every ordered kind pair, operand values symbolic.
func HarnessC14Binary() {
	op := vfChoice("op", 10)
	ka := vfChoice("ka", 12)
	kb := vfChoice("kb", 12)
	a := vfNum(ka, "a")
	b := vfNum(kb, "b")
	k := ka
	if kb > k {
		k = kb
	}
	want, wantFail := vfRefOp(op, k, vfPromote(a, ka, k), vfPromote(b, kb, k))
	got, gotFail := vfCallHelper(op, a, b)
	vfReach("c14.binary")
	vfAssert(gotFail == wantFail, "c14.binary.fails-exactly-when-rule-fails")
	if !gotFail && !wantFail {
		vfAssert(vfSame(got, want), "c14.binary.kind-and-value")
	}
}

// HarnessC14Unary: unary minus keeps the kind and negates with Go semantics; toInt/toInt64/toFloat64
// are the Go conversions; ** is math.Pow on the float64 conversions of both operands.
func HarnessC14Unary() {
	which := vfChoice("which", 5)
	ka := vfChoice("ka", 12)
	a := vfNum(ka, "a")
	switch which {
	case 0:
		got := negate(a)
		var want interface{}
		switch x := a.(type) {
		case uint:
			want = -x
		case uint8:
			want = -x
		case uint16:
			want = -x
		case uint32:
			want = -x
		case uint64:
			want = -x
		case int:
			want = -x
		case int8:
			want = -x
		case int16:
			want = -x
		case int32:
			want = -x
		case int64:
			want = -x
		case float32:
			want = -x
		case float64:
			want = -x
		}
		vfReach("c14.negate")
		vfAssert(vfSame(got, want), "c14.negate.kind-and-value")
	case 1:
		if ka >= 10 {
			return // float -> int: out-of-range values are implementation-defined in Go (outside the claim)
		}
		bits, _ := vfBits(a)
		vfReach("c14.toInt")
		vfAssert(toInt(a) == int(bits), "c14.toInt")
	case 2:
		if ka >= 10 {
			return
		}
		bits, _ := vfBits(a)
		vfReach("c14.toInt64")
		vfAssert(toInt64(a) == int64(bits), "c14.toInt64")
	case 3:
		got := toFloat64(a)
		want := vfPromote(a, ka, 11).(float64)
		vfReach("c14.toFloat64")
		vfAssert(got == want || (got != got && want != want), "c14.toFloat64")
	case 4:
		kb := vfChoice("kb", 12)
		b := vfNum(kb, "b")
		got := exponent(a, b)
		want := math.Pow(vfPromote(a, ka, 11).(float64), vfPromote(b, kb, 11).(float64))
		vfReach("c14.exponent")
		vfAssert(got == want || (got != got && want != want), "c14.exponent")
	}
}
