package lexer

import (
	"unicode/utf8"

	"github.com/antonmedv/expr/file"
)

// ---------------------------------------------------------------------------------
// C04 (lexer stage): Lex on an ARBITRARY byte buffer (every byte symbolic, valid and invalid UTF-8)
// returns tokens or an error; it never panics (a panic is a path outcome the interpreter reports)
// and terminates within the unwinding bound.
// HarnessC04LexEscape: a quoted literal whose body is a backslash followed by n symbolic bytes (every escape letter,
// complete and truncated hex/unicode/octal escapes, directly before the closing quote or not, terminated or not).
func HarnessC04LexEscape() {
	n := vfParamInt("n")
	q := "\""
	if vfBool("single-quote") {
		q = "'"
	}
	buf := q + "\\" + vfBytes("esc", n)
	if vfBool("terminated") {
		buf += q
	}
	tokens, err := Lex(file.NewSource(buf))
	vfReach("c04.lexescape.returned")
	if err != nil {
		vfAssert(tokens == nil, "c04.lex.error-means-no-tokens")
	}
}

func HarnessC04Lex() {
	n := vfParamInt("n")
	buf := vfBytes("buf", n)
	tokens, err := Lex(file.NewSource(buf))
	vfReach("c04.lex.returned")
	if err != nil {
		vfAssert(tokens == nil, "c04.lex.error-means-no-tokens")
	} else {
		vfAssert(len(tokens) > 0 && tokens[len(tokens)-1].Kind == EOF, "c04.lex.tokens-end-with-eof")
	}
}

// ---------------------------------------------------------------------------------
// C12 strings: every string value s (valid UTF-8, runes below U+0800, control characters, quotes and
// backslashes included) written as a quoted literal with the supported escapes lexes back to exactly s.

func vfHexDigit(d rune) byte {
	if d < 10 {
		return byte('0' + d)
	}
	return byte('a' + d - 10)
}

// vfQuote is the reference escaper. mode 0: named escapes for \a \b \f \n \r \t \v \\ and the active
// quote, everything else raw. mode 1: every rune as \uXXXX. mode 2: \ooo, mode 3: \xHH (runes below U+0100).
func vfQuote(s string, q byte, mode int) string {
	out := []byte{q}
	if mode == 1 {
		for _, r := range s {
			out = append(out, '\\', 'u', vfHexDigit((r>>12)&15), vfHexDigit((r>>8)&15), vfHexDigit((r>>4)&15), vfHexDigit(r&15))
		}
		return string(append(out, q))
	}
	if mode == 2 || mode == 3 {
		// every rune below U+0100 as a three-digit octal escape (mode 2) or a two-digit \x escape (mode 3):
		// both denote the code point
		for _, r := range s {
			vfAssume(r < 0x100)
			if mode == 2 {
				out = append(out, '\\', byte('0'+(r>>6)&7), byte('0'+(r>>3)&7), byte('0'+r&7))
			} else {
				out = append(out, '\\', 'x', vfHexDigit((r>>4)&15), vfHexDigit(r&15))
			}
		}
		return string(append(out, q))
	}
	for i := 0; i < len(s); i++ {
		c := s[i]
		switch {
		case c == '\a':
			out = append(out, '\\', 'a')
		case c == '\b':
			out = append(out, '\\', 'b')
		case c == '\f':
			out = append(out, '\\', 'f')
		case c == '\n':
			out = append(out, '\\', 'n')
		case c == '\r':
			out = append(out, '\\', 'r')
		case c == '\t':
			out = append(out, '\\', 't')
		case c == '\v':
			out = append(out, '\\', 'v')
		case c == '\\':
			out = append(out, '\\', '\\')
		case c == q:
			out = append(out, '\\', q)
		default:
			out = append(out, c)
		}
	}
	return string(append(out, q))
}

func HarnessC12String() {
	n := vfParamInt("n")
	mode := vfParamInt("mode")
	q := byte('"')
	if vfBool("single-quote") {
		q = '\''
	}
	s := vfBytes("s", n)
	vfAssume(utf8.ValidString(s))
	for _, r := range s {
		vfAssume(r < 0x800)
	}
	src := vfQuote(s, q, mode)
	tokens, err := Lex(file.NewSource(src))
	vfReach("c12.string.lexed")
	vfAssert(err == nil, "c12.string.literal-is-accepted")
	if err == nil {
		vfAssert(len(tokens) == 2 && tokens[0].Kind == String && tokens[1].Kind == EOF, "c12.string.one-string-token")
		if len(tokens) == 2 {
			vfAssert(tokens[0].Value == s, "c12.string.value-round-trips")
			vfAssert(tokens[0].Line == 1 && tokens[0].Column == 0, "c12.string.location")
		}
	}
}

// ---------------------------------------------------------------------------------
// C12 / C13 positions: tokens laid out with arbitrary (symbolic) whitespace and line breaks and multi-byte
// characters; every token's Location must be (1 + newlines before its first character, runes since the last newline).

var vfTokenSpellings = []string{"a", "+", "12", "'s'", "not in", "..", "?.", "é1", "==", "(", "1.5", "\"é\"", "not", "inx", "in", "index"}

func HarnessC12Positions() {
	k := vfParamInt("k")
	gap := vfParamInt("gap")
	var src []byte
	type want struct {
		line, col int
		text      string
	}
	var wants []want
	line, col := 1, 0
	for i := 0; i < k; i++ {
		g := vfBytes("gap", vfChoice("gaplen", gap+1))
		for j := 0; j < len(g); j++ {
			c := g[j]
			vfAssume(c == ' ' || c == '\n' || c == '\t' || c == '\r')
			if c == '\n' {
				line++
				col = 0
			} else {
				col++
			}
		}
		if i > 0 && len(g) == 0 {
			// adjacent tokens would merge; keep at least one separator
			g = " "
			col++
		}
		src = append(src, g...)
		t := vfTokenSpellings[vfParamInt("t"+string(rune('0'+i)))]
		wants = append(wants, want{line, col, t})
		if t == "not in" {
			// the two-word operator: arbitrary (symbolic) whitespace between its words
			w := vfBytes("inner", 1)
			src = append(src, "not"...)
			col += 3
			for j := 0; j < len(w); j++ {
				c := w[j]
				vfAssume(c == ' ' || c == '\n' || c == '\t' || c == '\r')
				if c == '\n' {
					line++
					col = 0
				} else {
					col++
				}
			}
			src = append(src, w...)
			src = append(src, "in"...)
			col += 2
			continue
		}
		src = append(src, t...)
		col += utf8.RuneCountInString(t)
	}
	tokens, err := Lex(file.NewSource(string(src)))
	vfReach("c12.pos.lexed")
	vfAssert(err == nil, "c12.pos.layout-is-accepted")
	if err != nil {
		return
	}
	vfAssert(len(tokens) == k+1, "c12.pos.one-token-per-item")
	if len(tokens) != k+1 {
		return
	}
	for i, w := range wants {
		vfAssert(tokens[i].Line == w.line && tokens[i].Column == w.col, "c12.pos.token-location-is-its-first-character")
		if w.text == "not in" {
			vfAssert(tokens[i].Value == "not in", "c12.pos.whitespace-inside-not-in-is-insignificant")
		}
	}
}
