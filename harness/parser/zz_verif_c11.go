package parser

import (
	"github.com/antonmedv/expr/ast"
	"github.com/antonmedv/expr/file"
	. "github.com/antonmedv/expr/parser/lexer"
)

// ---------------------------------------------------------------------------------
// C11: printing a tree with only the parentheses the documented precedence and associativity
// require and parsing the token sequence yields the same tree; one redundant pair of parentheses
// anywhere does not change it.
//
// The tree SHAPE is a job parameter; every OPERATOR is symbolic: its precedence level is chosen by a
// fork, the operator inside the level by a symbolic index (vfChoiceStr), so the real parser's
// table lookup returns an if-then-else term over the candidates and the comparison
// "op.precedence >= precedence" is decided by the solver. The reference precedence table below is
// written from docs/Language-Definition.md and /verif/spec/grammar.md, not from parser.go.

type vfT struct {
	kind    byte // 'L' leaf, 'B' binary, 'U' unary, 'C' conditional, 'M' member access, 'I' index
	op      string
	prec    int  // reference binding power of op
	right   bool // reference: right associative
	matches bool
	a, b, c *vfT
	name    string
}

// reference precedence levels (lowest first)
var vfLevels = []struct {
	prec  int
	right bool
	ops   []string
}{
	{10, false, []string{"or", "||"}},
	{15, false, []string{"and", "&&"}},
	{20, false, []string{"==", "!=", "<", ">", ">=", "<=", "in", "not in", "contains", "startsWith", "endsWith"}},
	{20, false, []string{"matches"}},
	{25, false, []string{".."}},
	{30, false, []string{"+", "-"}},
	{60, false, []string{"*", "/", "%"}},
	{70, true, []string{"**"}},
}

var vfUnaryLevels = []struct {
	prec int
	ops  []string
}{
	{50, []string{"not", "!"}},
	{500, []string{"-", "+"}},
}

type vfShapeParser struct {
	s    string
	pos  int
	leaf int
}

func (sp *vfShapeParser) parse() *vfT {
	c := sp.s[sp.pos]
	sp.pos++
	t := &vfT{kind: c}
	switch c {
	case 'L':
		t.name = string(rune('a' + sp.leaf))
		sp.leaf++
		return t
	case 'B':
		sp.pos++ // (
		t.a = sp.parse()
		sp.pos++ // ,
		t.b = sp.parse()
		sp.pos++ // )
		lv := vfLevels[vfChoice("level", len(vfLevels))]
		t.op = vfChoiceStr("op", lv.ops...)
		t.prec, t.right = lv.prec, lv.right
		t.matches = lv.ops[0] == "matches"
	case 'U':
		sp.pos++
		t.a = sp.parse()
		sp.pos++
		lv := vfUnaryLevels[vfChoice("ulevel", len(vfUnaryLevels))]
		t.op = vfChoiceStr("uop", lv.ops...)
		t.prec = lv.prec
	case 'C':
		sp.pos++
		t.a = sp.parse()
		sp.pos++
		t.b = sp.parse()
		sp.pos++
		t.c = sp.parse()
		sp.pos++
	case 'M':
		sp.pos++
		t.a = sp.parse()
		sp.pos++
		t.name = "f"
	case 'I':
		sp.pos++
		t.a = sp.parse()
		sp.pos++
		t.b = sp.parse()
		sp.pos++
	}
	return t
}

type vfPrinter struct {
	toks  []Token
	extra *vfT // subterm that gets one redundant pair of parentheses
}

func (p *vfPrinter) tok(kind Kind, value string) {
	n := len(p.toks)
	p.toks = append(p.toks, Token{Location: file.Location{Line: 1, Column: n}, Kind: kind, Value: value})
}

func (p *vfPrinter) paren(t *vfT, need bool) {
	if t == p.extra {
		p.tok(Bracket, "(")
	}
	if need {
		p.tok(Bracket, "(")
	}
	p.print(t)
	if need {
		p.tok(Bracket, ")")
	}
	if t == p.extra {
		p.tok(Bracket, ")")
	}
}

func isPrimary(t *vfT) bool { return t.kind == 'L' || t.kind == 'M' || t.kind == 'I' }

const vfInf = 1 << 30

// needParens: the parenthesisation decisions of the reference printer, shared by print and edge.
func needLeft(t, l *vfT) bool {
	if l.kind == 'C' || (l.kind == 'B' && (l.prec < t.prec || (l.prec == t.prec && t.right))) {
		return true
	}
	// a unary operator at the right edge of the left operand takes everything that binds at least as
	// tightly as itself: "not a * b" is not (a * b), "- not a ** b" is -(not (a ** b))
	return edge(l) <= t.prec
}
func needRight(t, r *vfT) bool {
	return r.kind == 'C' || (r.kind == 'B' && (r.prec < t.prec || (r.prec == t.prec && !t.right))) || (r.kind == 'U' && t.prec >= r.prec)
}
func needOperand(t, o *vfT) bool { return o.kind == 'C' || (o.kind == 'B' && o.prec < t.prec) }

// edge: the lowest precedence of a unary operator that is still open at the right edge of t's printed form
func edge(t *vfT) int {
	switch t.kind {
	case 'U':
		e := t.prec
		if !needOperand(t, t.a) {
			if x := edge(t.a); x < e {
				e = x
			}
		}
		return e
	case 'B':
		if !needRight(t, t.b) {
			return edge(t.b)
		}
	}
	return vfInf
}

func (p *vfPrinter) print(t *vfT) {
	switch t.kind {
	case 'L':
		p.tok(Identifier, t.name)
	case 'B':
		// left operand
		l, r := t.a, t.b
		p.paren(l, needLeft(t, l))
		p.tok(Operator, t.op)
		p.paren(r, needRight(t, r))
	case 'U':
		p.tok(Operator, t.op)
		o := t.a
		p.paren(o, needOperand(t, o))
	case 'C':
		p.paren(t.a, t.a.kind == 'C')
		p.tok(Operator, "?")
		p.paren(t.b, false)
		p.tok(Operator, ":")
		p.paren(t.c, false)
	case 'M':
		p.paren(t.a, !isPrimary(t.a))
		p.tok(Operator, ".")
		p.tok(Identifier, t.name)
	case 'I':
		p.paren(t.a, !isPrimary(t.a))
		p.tok(Bracket, "[")
		p.paren(t.b, false)
		p.tok(Bracket, "]")
	}
}

func vfSameTree(n ast.Node, t *vfT) bool {
	switch t.kind {
	case 'L':
		x, ok := n.(*ast.IdentifierNode)
		return ok && x.Value == t.name
	case 'B':
		if t.matches {
			x, ok := n.(*ast.MatchesNode)
			return ok && vfSameTree(x.Left, t.a) && vfSameTree(x.Right, t.b)
		}
		x, ok := n.(*ast.BinaryNode)
		return ok && x.Operator == t.op && vfSameTree(x.Left, t.a) && vfSameTree(x.Right, t.b)
	case 'U':
		x, ok := n.(*ast.UnaryNode)
		return ok && x.Operator == t.op && vfSameTree(x.Node, t.a)
	case 'C':
		x, ok := n.(*ast.ConditionalNode)
		return ok && vfSameTree(x.Cond, t.a) && vfSameTree(x.Exp1, t.b) && vfSameTree(x.Exp2, t.c)
	case 'M':
		x, ok := n.(*ast.PropertyNode)
		return ok && x.Property == t.name && vfSameTree(x.Node, t.a)
	case 'I':
		x, ok := n.(*ast.IndexNode)
		return ok && vfSameTree(x.Node, t.a) && vfSameTree(x.Index, t.b)
	}
	return false
}

func vfSubterms(t *vfT, out *[]*vfT) {
	if t == nil {
		return
	}
	*out = append(*out, t)
	vfSubterms(t.a, out)
	vfSubterms(t.b, out)
	vfSubterms(t.c, out)
}

func vfParseTokens(toks []Token) (ast.Node, *file.Error) {
	toks = append(toks, Token{Location: file.Location{Line: 1, Column: len(toks)}, Kind: EOF})
	p := &parser{tokens: toks, current: toks[0]}
	node := p.parseExpression(0)
	if !p.current.Is(EOF) {
		p.error("unexpected token %v", p.current)
	}
	return node, p.err
}

// HarnessC11RoundTrip: params shape (string), redundant (0/1)
func HarnessC11RoundTrip() {
	sp := &vfShapeParser{s: vfParamStr("shape")}
	t := sp.parse()
	pr := &vfPrinter{}
	if vfParamInt("redundant") != 0 {
		var subs []*vfT
		vfSubterms(t, &subs)
		pr.extra = subs[vfChoice("extra", len(subs))]
	}
	pr.paren(t, false)
	node, perr := vfParseTokens(pr.toks)
	vfReach("c11.parsed")
	vfAssert(perr == nil, "c11.minimal-parenthesisation-is-accepted")
	if perr == nil {
		vfAssert(vfSameTree(node, t), "c11.round-trip-yields-the-same-tree")
	}
}
