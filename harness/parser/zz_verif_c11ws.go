package parser

import (
	"github.com/antonmedv/expr/ast"
)

// ---------------------------------------------------------------------------------
// C11 (whitespace): laying a token sequence out with arbitrary whitespace never changes the tree.
// '~' in the template is one SYMBOLIC whitespace byte (space, tab, line break, carriage return) or nothing;
// the tree must equal the tree of the same template with single spaces.

func vfSameAst(a, b ast.Node) bool {
	if a == nil || b == nil {
		return a == nil && b == nil
	}
	switch x := a.(type) {
	case *ast.NilNode:
		_, ok := b.(*ast.NilNode)
		return ok
	case *ast.IdentifierNode:
		y, ok := b.(*ast.IdentifierNode)
		return ok && x.Value == y.Value && x.NilSafe == y.NilSafe
	case *ast.IntegerNode:
		y, ok := b.(*ast.IntegerNode)
		return ok && x.Value == y.Value
	case *ast.FloatNode:
		y, ok := b.(*ast.FloatNode)
		return ok && x.Value == y.Value
	case *ast.BoolNode:
		y, ok := b.(*ast.BoolNode)
		return ok && x.Value == y.Value
	case *ast.StringNode:
		y, ok := b.(*ast.StringNode)
		return ok && x.Value == y.Value
	case *ast.UnaryNode:
		y, ok := b.(*ast.UnaryNode)
		return ok && x.Operator == y.Operator && vfSameAst(x.Node, y.Node)
	case *ast.BinaryNode:
		y, ok := b.(*ast.BinaryNode)
		return ok && x.Operator == y.Operator && vfSameAst(x.Left, y.Left) && vfSameAst(x.Right, y.Right)
	case *ast.MatchesNode:
		y, ok := b.(*ast.MatchesNode)
		return ok && vfSameAst(x.Left, y.Left) && vfSameAst(x.Right, y.Right)
	case *ast.PropertyNode:
		y, ok := b.(*ast.PropertyNode)
		return ok && x.Property == y.Property && x.NilSafe == y.NilSafe && vfSameAst(x.Node, y.Node)
	case *ast.IndexNode:
		y, ok := b.(*ast.IndexNode)
		return ok && vfSameAst(x.Node, y.Node) && vfSameAst(x.Index, y.Index)
	case *ast.SliceNode:
		y, ok := b.(*ast.SliceNode)
		return ok && vfSameAst(x.Node, y.Node) && vfSameAst(x.From, y.From) && vfSameAst(x.To, y.To)
	case *ast.MethodNode:
		y, ok := b.(*ast.MethodNode)
		return ok && x.Method == y.Method && vfSameAst(x.Node, y.Node) && vfSameAsts(x.Arguments, y.Arguments)
	case *ast.FunctionNode:
		y, ok := b.(*ast.FunctionNode)
		return ok && x.Name == y.Name && vfSameAsts(x.Arguments, y.Arguments)
	case *ast.BuiltinNode:
		y, ok := b.(*ast.BuiltinNode)
		return ok && x.Name == y.Name && vfSameAsts(x.Arguments, y.Arguments)
	case *ast.ClosureNode:
		y, ok := b.(*ast.ClosureNode)
		return ok && vfSameAst(x.Node, y.Node)
	case *ast.PointerNode:
		_, ok := b.(*ast.PointerNode)
		return ok
	case *ast.ConditionalNode:
		y, ok := b.(*ast.ConditionalNode)
		return ok && vfSameAst(x.Cond, y.Cond) && vfSameAst(x.Exp1, y.Exp1) && vfSameAst(x.Exp2, y.Exp2)
	case *ast.ArrayNode:
		y, ok := b.(*ast.ArrayNode)
		return ok && vfSameAsts(x.Nodes, y.Nodes)
	case *ast.MapNode:
		y, ok := b.(*ast.MapNode)
		return ok && vfSameAsts(x.Pairs, y.Pairs)
	case *ast.PairNode:
		y, ok := b.(*ast.PairNode)
		return ok && vfSameAst(x.Key, y.Key) && vfSameAst(x.Value, y.Value)
	}
	return false
}

func vfSameAsts(a, b []ast.Node) bool {
	if len(a) != len(b) {
		return false
	}
	for i := range a {
		if !vfSameAst(a[i], b[i]) {
			return false
		}
	}
	return true
}

func HarnessC11Whitespace() {
	tmpl := vfParamStr("tmpl")
	var laid, plain []byte
	for i := 0; i < len(tmpl); i++ {
		c := tmpl[i]
		if c == '~' || c == '^' {
			// '~': optional whitespace (may be empty); '^': required whitespace (between two words)
			plain = append(plain, ' ')
			n := 1
			if c == '~' {
				n = vfChoice("wslen", 2)
			}
			if n > 0 {
				w := vfBytes("ws", 1)
				vfAssume(w[0] == ' ' || w[0] == '\n' || w[0] == '\t' || w[0] == '\r')
				laid = append(laid, w[0])
			}
			continue
		}
		laid = append(laid, c)
		plain = append(plain, c)
	}
	want, werr := Parse(string(plain))
	got, gerr := Parse(string(laid))
	vfReach("c11.ws.parsed")
	vfAssert((werr == nil) == (gerr == nil), "c11.whitespace-does-not-change-acceptance")
	if werr == nil && gerr == nil {
		vfAssert(vfSameAst(got.Node, want.Node), "c11.whitespace-does-not-change-the-tree")
	}
}
