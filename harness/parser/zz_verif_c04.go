package parser

// C04 (parser stage): Parse on an arbitrary byte buffer returns a tree or an error, never panics,
// terminates within the unwinding bound; an error means no tree, no error means a tree.
func HarnessC04Parse() {
	n := vfParamInt("n")
	buf := vfBytes("buf", n)
	tree, err := Parse(buf)
	vfReach("c04.parse.returned")
	if err != nil {
		vfAssert(tree == nil, "c04.parse.error-means-no-tree")
	} else {
		vfAssert(tree != nil && tree.Node != nil, "c04.parse.no-error-means-a-tree")
	}
}

// HarnessC04ParseTokens: the byte buffer is a sequence of k symbolic choices from a token alphabet that covers
// every operator, bracket and literal class, separated by spaces (reaches deeper into the parser than raw bytes).
var vfTokAlphabet = []string{"a", "1", "'s'", "+", "-", "*", "**", "not", "!", "and", "or", "==", "in", "not in", "matches", "..", "?", ":", "?.", ".", ",", "(", ")", "[", "]", "{", "}", "#", "len", "all", "nil", "true", "1.5", "%", "<"}

func HarnessC04ParseTokens() {
	k := vfParamInt("k")
	src := ""
	for i := 0; i < k; i++ {
		if i > 0 {
			src += " "
		}
		src += vfTokAlphabet[vfChoice("tok", len(vfTokAlphabet))]
	}
	tree, err := Parse(src)
	vfReach("c04.parsetokens.returned")
	if err != nil {
		vfAssert(tree == nil, "c04.parse.error-means-no-tree")
	} else {
		vfAssert(tree != nil && tree.Node != nil, "c04.parse.no-error-means-a-tree")
	}
}
