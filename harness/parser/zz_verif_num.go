package parser

import (
	"strconv"
	"strings"

	"github.com/antonmedv/expr/ast"
)

// ---------------------------------------------------------------------------------
// C12 numbers: a spelling of one of the documented forms, with SYMBOLIC digits, is lexed as one
// Number token spanning the whole spelling and classified as the form demands: decimal integers go to
// ParseInt(...,10), hexadecimal ones to ParseInt(...,0), floats to ParseFloat, each with exactly the
// spelling minus digit separators. strconv itself is trusted (modelled as an uninterpreted function of
// spelling and base), so a misclassification shows as a different node kind or a different call.

func vfDigit(name string, hex bool) byte {
	c := vfByte(name)
	if hex {
		vfAssume((c >= '0' && c <= '9') || (c >= 'a' && c <= 'f') || (c >= 'A' && c <= 'F'))
	} else {
		vfAssume(c >= '0' && c <= '9')
	}
	return c
}

func vfDigits(name string, n int, hex bool, sep bool) []byte {
	var out []byte
	for i := 0; i < n; i++ {
		if sep && i > 0 && vfBool(name+".sep") {
			out = append(out, '_')
		}
		out = append(out, vfDigit(name, hex))
	}
	return out
}

// HarnessC12Number: params form (0 decimal, 1 hex, 2 float d.d, 3 float .d, 4 float with exponent, 5 range look-ahead), n digits
func HarnessC12Number() {
	form := vfParamInt("form")
	n := vfParamInt("n")
	var sp []byte
	switch form {
	case 0:
		sp = vfDigits("d", n, false, true)
	case 6: // long decimal integers (no separators): values beyond 2^53
		sp = vfDigits("d", n, false, false)
		form = 0
	case 1:
		sp = append(sp, '0')
		if vfBool("upperX") {
			sp = append(sp, 'X')
		} else {
			sp = append(sp, 'x')
		}
		sp = append(sp, vfDigits("h", n, true, false)...)
	case 2:
		sp = append(vfDigits("i", n, false, true), '.')
		sp = append(sp, vfDigits("f", 1+vfChoice("nfrac", 2), false, false)...)
	case 3:
		sp = append(sp, '.')
		sp = append(sp, vfDigits("f", n, false, false)...)
	case 4:
		sp = vfDigits("i", n, false, false)
		if vfBool("frac") {
			sp = append(sp, '.')
			sp = append(sp, vfDigits("f", 1, false, false)...)
		}
		if vfBool("upperE") {
			sp = append(sp, 'E')
		} else {
			sp = append(sp, 'e')
		}
		switch vfChoice("sign", 3) {
		case 1:
			sp = append(sp, '+')
		case 2:
			sp = append(sp, '-')
		}
		sp = append(sp, vfDigits("e", 1+vfChoice("nexp", 2), false, false)...)
	default:
		sp = vfDigits("a", n, false, false)
		sp = append(sp, '.', '.')
		sp = append(sp, vfDigits("b", 1, false, false)...)
	}
	src := string(sp)
	clean := strings.Replace(src, "_", "", -1)
	tree, err := Parse(src)
	vfReach("c12.number.parsed")
	switch form {
	case 0, 1:
		base := 10
		if form == 1 {
			base = 0
		}
		want, werr := strconv.ParseInt(clean, base, 64)
		vfAssert((err != nil) == (werr != nil), "c12.number.integer-accepted-iff-it-fits")
		if err == nil && werr == nil {
			in, ok := tree.Node.(*ast.IntegerNode)
			vfAssert(ok, "c12.number.integer-spelling-yields-integer-node")
			if ok {
				vfAssert(in.Value == int(want), "c12.number.integer-value")
			}
		}
	case 2, 3, 4:
		want, werr := strconv.ParseFloat(clean, 64)
		vfAssert((err != nil) == (werr != nil), "c12.number.float-accepted-iff-strconv-accepts")
		if err == nil && werr == nil {
			fn, ok := tree.Node.(*ast.FloatNode)
			vfAssert(ok, "c12.number.float-spelling-yields-float-node")
			if ok {
				vfAssert(fn.Value == want || (fn.Value != fn.Value && want != want), "c12.number.float-value")
			}
		}
	default:
		vfAssert(err == nil, "c12.number.range-of-literals-is-accepted")
		if err == nil {
			bn, ok := tree.Node.(*ast.BinaryNode)
			vfAssert(ok && bn.Operator == "..", "c12.number.dot-dot-after-digits-is-the-range-operator")
			if ok {
				_, lok := bn.Left.(*ast.IntegerNode)
				_, rok := bn.Right.(*ast.IntegerNode)
				vfAssert(lok && rok, "c12.number.range-bounds-are-integers")
			}
		}
	}
}
