package expr

import (
	"reflect"

	"github.com/antonmedv/expr/checker"
	"github.com/antonmedv/expr/conf"
	"github.com/antonmedv/expr/parser"
)

// ---------------------------------------------------------------------------------
// C14 (last sentence): the result kind of mixed-kind arithmetic is the one the type checker predicts.
// (The value side - helpers vs the promotion rule for all operand values - is checked in package vm.)

type vfKinds struct {
	U   uint
	U8  uint8
	U16 uint16
	U32 uint32
	U64 uint64
	I   int
	I8  int8
	I16 int16
	I32 int32
	I64 int64
	F32 float32
	F64 float64
}

var vfKindNames = []string{"U", "U8", "U16", "U32", "U64", "I", "I8", "I16", "I32", "I64", "F32", "F64"}

func HarnessC14Kind() {
	a, b := vfParamInt("a"), vfParamInt("b")
	op := []string{"+", "-", "*", "/", "%", "==", "<", "**"}[vfChoice("op", 8)]
	src := vfKindNames[a] + " " + op + " " + vfKindNames[b]
	env := vfKinds{U: vfUint("U"), U8: vfUint8("U8"), U16: vfUint16("U16"), U32: vfUint32("U32"), U64: vfUint64("U64"),
		I: vfInt("I"), I8: vfInt8("I8"), I16: vfInt16("I16"), I32: vfInt32("I32"), I64: vfInt64("I64"), F32: vfFloat32("F32"), F64: vfFloat64("F64")}
	program, err := Compile(src, Env(vfKinds{}))
	if err != nil {
		vfReach("c14.kind.rejected") // % on floats
		return
	}
	tree, _ := parser.Parse(src)
	static, cerr := checker.Check(tree, conf.New(vfKinds{}))
	if cerr != nil {
		vfFail("c14.kind.check-disagrees-with-compile")
	}
	out, rerr := Run(program, env)
	vfReach("c14.kind.ran")
	if rerr == nil {
		vfAssert(reflect.TypeOf(out) == static, "c14.result-kind-is-the-one-the-checker-predicts")
	}
}
