package expr

import (
	"regexp"
	"strings"

	"github.com/antonmedv/expr/ast"
	"github.com/antonmedv/expr/compiler"
	"github.com/antonmedv/expr/file"
	"github.com/antonmedv/expr/parser"
	"github.com/antonmedv/expr/vm"
)

// ---------------------------------------------------------------------------------
// C05: emitted bytecode is well-formed and stack-balanced.
// (a) an independent verifier (operand table written from vm/opcodes.go and the language of the VM, not from
//     the compiler) decodes Program.Bytecode: known opcodes, operands in range and of the expected kind, every
//     jump lands on an instruction boundary inside the program or exactly at its end;
// (b) the program runs on a caller-owned VM with a symbolic environment: no run pops an empty stack, every
//     successful run ends with an empty stack (the result was the only value) and no loop scope left open.

const (
	vfArgNone = iota
	vfArgConstAny
	vfArgConstString
	vfArgConstRegexp
	vfArgConstCall
	vfArgCast
	vfArgJumpForward
	vfArgJumpBackward
)

func vfOperandKind(op byte) int {
	switch op {
	case vm.OpPush:
		return vfArgConstAny
	case vm.OpFetch, vm.OpFetchNilSafe, vm.OpFetchMap, vm.OpProperty, vm.OpPropertyNilSafe, vm.OpStore, vm.OpLoad, vm.OpInc:
		return vfArgConstString
	case vm.OpMatchesConst:
		return vfArgConstRegexp
	case vm.OpCall, vm.OpCallFast, vm.OpMethod, vm.OpMethodNilSafe:
		return vfArgConstCall
	case vm.OpCast:
		return vfArgCast
	case vm.OpJump, vm.OpJumpIfTrue, vm.OpJumpIfFalse:
		return vfArgJumpForward
	case vm.OpJumpBackward:
		return vfArgJumpBackward
	}
	return vfArgNone
}

// vfVerifyProgram returns "" or the first well-formedness defect.
func vfVerifyProgram(p *vm.Program) string {
	code := p.Bytecode
	n := len(code)
	boundary := make([]bool, n+1)
	type jump struct{ at, target int }
	var jumps []jump
	for ip := 0; ip < n; {
		boundary[ip] = true
		op := code[ip]
		if op > vm.OpEnd {
			return "unknown opcode"
		}
		k := vfOperandKind(op)
		if k == vfArgNone {
			ip++
			continue
		}
		if ip+2 >= n+0 && ip+2 > n-1 {
			return "truncated operand"
		}
		arg := int(code[ip+1]) | int(code[ip+2])<<8
		switch k {
		case vfArgConstAny, vfArgConstString, vfArgConstRegexp, vfArgConstCall:
			if arg >= len(p.Constants) {
				return "constant index out of range"
			}
			c := p.Constants[arg]
			switch k {
			case vfArgConstString:
				if _, ok := c.(string); !ok {
					return "operand is not a string constant"
				}
			case vfArgConstRegexp:
				if _, ok := c.(*regexp.Regexp); !ok {
					return "operand is not a regexp constant"
				}
			case vfArgConstCall:
				if _, ok := c.(vm.Call); !ok {
					return "operand is not a call descriptor"
				}
			}
		case vfArgCast:
			if arg > 1 {
				return "bad cast operand"
			}
		case vfArgJumpForward:
			jumps = append(jumps, jump{ip, ip + 3 + arg})
		case vfArgJumpBackward:
			jumps = append(jumps, jump{ip, ip + 3 - arg})
		}
		ip += 3
	}
	boundary[n] = true
	for _, j := range jumps {
		if j.target < 0 || j.target > n || !boundary[j.target] {
			return "jump does not land on an instruction boundary"
		}
	}
	return ""
}

func vfIsStackUnderflow(err error) bool {
	fe, ok := err.(*file.Error)
	return ok && strings.Contains(fe.Message, "index out of range [-1]")
}

// HarnessC05Program: params src, optimize, maxlen
func HarnessC05Program() {
	src := vfParamStr("src")
	c := vfMemoCompile(src, 0, vfParamInt("optimize") != 0)
	if c.err != nil {
		vfReach("c05.template-rejected")
		return
	}
	vfReach("c05.compiled")
	defect := vfVerifyProgram(c.prog)
	vfNote(defect)
	vfAssert(defect == "", "c05.program-decodes-into-well-formed-instructions")
	env := vfMakeEnv(src, vfParamInt("maxlen"))
	machine := &vm.VM{}
	_, err := machine.Run(c.prog, env)
	vfReach("c05.ran")
	if err != nil {
		vfAssert(!vfIsStackUnderflow(err), "c05.no-run-pops-an-empty-stack")
		return
	}
	vfAssert(len(machine.Stack()) == 0, "c05.successful-run-leaves-exactly-the-result")
	vfAssert(machine.Scope() == nil, "c05.successful-run-leaves-no-scope-open")
}

// HarnessC05Large: programs whose branches are around and beyond 64 KiB of bytecode, built as syntax trees
// (n identifier operands of 3 bytes each) and compiled by the real compiler. shape 0: P ? [A x n] : 7, shape 3: P ? 7 : [A x n],
// shape 1: P and len([A x n]) > 0, shape 2: all(Xs, {[A x n][0] == A}). Either compilation fails, or the program is
// well formed and evaluates as the definition says.
func HarnessC05Large() {
	shape := vfParamInt("shape")
	n := vfParamInt("n")
	elems := make([]ast.Node, n)
	for i := range elems {
		elems[i] = &ast.IdentifierNode{Value: "A"}
	}
	big := &ast.ArrayNode{Nodes: elems}
	var root ast.Node
	switch shape {
	case 0:
		root = &ast.ConditionalNode{Cond: &ast.IdentifierNode{Value: "P"}, Exp1: big, Exp2: &ast.IntegerNode{Value: 7}}
	case 3:
		root = &ast.ConditionalNode{Cond: &ast.IdentifierNode{Value: "P"}, Exp1: &ast.IntegerNode{Value: 7}, Exp2: big}
	case 1:
		root = &ast.BinaryNode{Operator: "and", Left: &ast.IdentifierNode{Value: "P"},
			Right: &ast.BinaryNode{Operator: ">", Left: &ast.BuiltinNode{Name: "len", Arguments: []ast.Node{big}}, Right: &ast.IntegerNode{Value: 0}}}
	default:
		root = &ast.BuiltinNode{Name: "all", Arguments: []ast.Node{&ast.IdentifierNode{Value: "Xs"},
			&ast.ClosureNode{Node: &ast.BinaryNode{Operator: "==", Left: &ast.IndexNode{Node: big, Index: &ast.IntegerNode{Value: 0}}, Right: &ast.IdentifierNode{Value: "A"}}}}}
	}
	program, err := compiler.Compile(&parser.Tree{Node: root, Source: file.NewSource("x")}, nil)
	vfReach("c05.large.compiled")
	if err != nil {
		vfReach("c05.large.refused")
		return
	}
	defect := vfVerifyProgram(program)
	vfNote(defect)
	vfAssert(defect == "", "c05.program-decodes-into-well-formed-instructions")
	// run on the side that jumps OVER the big block (cheap) - and on the other side in the thorough tier
	p := vfBool("P")
	if vfParamInt("skiponly") != 0 {
		vfAssume(p == (shape == 3)) // the side that jumps over the big block
	}
	e := &vfEnv{A: vfInt("A"), P: p, Xs: []int{1, 2}}
	machine := &vm.VM{}
	out, rerr := machine.Run(program, e)
	vfReach("c05.large.ran")
	switch shape {
	case 0:
		vfAssert(rerr == nil, "c05.large.runs")
		if rerr == nil && !p {
			vfAssert(out == 7, "c05.large.jump-lands-on-its-label")
		}
		if rerr == nil && p {
			xs, ok := out.([]interface{})
			vfAssert(ok && len(xs) == n, "c05.large.jump-lands-on-its-label")
		}
	case 3:
		vfAssert(rerr == nil, "c05.large.runs")
		if rerr == nil && p {
			vfAssert(out == 7, "c05.large.jump-lands-on-its-label")
		}
		if rerr == nil && !p {
			xs, ok := out.([]interface{})
			vfAssert(ok && len(xs) == n, "c05.large.jump-lands-on-its-label")
		}
	case 1:
		vfAssert(rerr == nil, "c05.large.runs")
		if rerr == nil {
			vfAssert(out == (p && n > 0), "c05.large.jump-lands-on-its-label")
		}
	default:
		vfAssert(rerr == nil, "c05.large.runs")
		if rerr == nil {
			vfAssert(out == true, "c05.large.jump-lands-on-its-label")
		}
	}
	if rerr == nil {
		vfAssert(len(machine.Stack()) == 0 && machine.Scope() == nil, "c05.successful-run-leaves-exactly-the-result")
	}
}
