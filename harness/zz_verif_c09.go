package expr

import (
	"reflect"
	"regexp"

	"github.com/antonmedv/expr/vm"
)

// ---------------------------------------------------------------------------------
// C09: Compile and Run are pure and deterministic.
//  - the same source with the same options compiles to the same program, byte for byte and constant for constant,
//    whatever order maps are iterated in (vfMapOrder makes every map iteration order a symbolic choice) and
//    whatever was compiled before in the process;
//  - Run does not modify the program, the environment value or the sample environment, and running again on an
//    equal environment yields an equal result.

func vfSameConst(a, b interface{}) bool {
	if ra, ok := a.(*regexp.Regexp); ok {
		rb, ok := b.(*regexp.Regexp)
		return ok && ra.String() == rb.String()
	}
	return reflect.DeepEqual(a, b)
}

func vfSameProgram(p, q *vm.Program) bool {
	if (p == nil) != (q == nil) {
		return false
	}
	if p == nil {
		return true
	}
	if len(p.Bytecode) != len(q.Bytecode) || len(p.Constants) != len(q.Constants) {
		return false
	}
	for i := range p.Bytecode {
		if p.Bytecode[i] != q.Bytecode[i] {
			return false
		}
	}
	for i := range p.Constants {
		if !vfSameConst(p.Constants[i], q.Constants[i]) {
			return false
		}
	}
	return true
}

type vfProgSnap struct {
	code   []byte
	consts []interface{}
}

func vfCopyConst(c interface{}) interface{} {
	switch x := c.(type) {
	case []int:
		return append([]int{}, x...)
	case []string:
		return append([]string{}, x...)
	case map[int]struct{}:
		m := map[int]struct{}{}
		for k := range x {
			m[k] = struct{}{}
		}
		return m
	case map[string]struct{}:
		m := map[string]struct{}{}
		for k := range x {
			m[k] = struct{}{}
		}
		return m
	}
	return c
}

func vfSnapProgram(p *vm.Program) *vm.Program {
	q := &vm.Program{Source: p.Source, Locations: p.Locations}
	q.Bytecode = append([]byte{}, p.Bytecode...)
	for _, c := range p.Constants {
		q.Constants = append(q.Constants, vfCopyConst(c))
	}
	return q
}

func vfCopyEnv(e *vfEnv) *vfEnv {
	c := *e
	c.Xs = append([]int(nil), e.Xs...)
	c.Ys = append([]int(nil), e.Ys...)
	c.Ss = append([]string(nil), e.Ss...)
	if e.Xss != nil {
		c.Xss = make([][]int, len(e.Xss))
		for i := range e.Xss {
			c.Xss[i] = append([]int(nil), e.Xss[i]...)
		}
	}
	if e.M != nil {
		c.M = map[string]int{}
		for k, v := range e.M {
			c.M[k] = v
		}
	}
	if e.Ptr != nil {
		p := *e.Ptr
		if p.Next != nil {
			n := *p.Next
			p.Next = &n
		}
		c.Ptr = &p
	}
	return &c
}

func vfSameInts(a, b []int) bool {
	if len(a) != len(b) {
		return false
	}
	for i := range a {
		if a[i] != b[i] {
			return false
		}
	}
	return true
}

func vfSameEnvData(a, b *vfEnv) bool {
	if a.A != b.A || a.B != b.B || a.I64 != b.I64 || a.U8 != b.U8 || a.I8 != b.I8 || a.P != b.P || a.Q != b.Q || a.S != b.S || a.T != b.T {
		return false
	}
	if !(a.F == b.F || (a.F != a.F && b.F != b.F)) {
		return false
	}
	if !vfSameInts(a.Xs, b.Xs) || !vfSameInts(a.Ys, b.Ys) || len(a.Xss) != len(b.Xss) || len(a.Ss) != len(b.Ss) || len(a.M) != len(b.M) {
		return false
	}
	for i := range a.Xss {
		if !vfSameInts(a.Xss[i], b.Xss[i]) {
			return false
		}
	}
	for i := range a.Ss {
		if a.Ss[i] != b.Ss[i] {
			return false
		}
	}
	for k, v := range a.M {
		if w, ok := b.M[k]; !ok || v != w {
			return false
		}
	}
	if (a.Ptr == nil) != (b.Ptr == nil) {
		return false
	}
	if a.Ptr != nil {
		if a.Ptr.V != b.Ptr.V || (a.Ptr.Next == nil) != (b.Ptr.Next == nil) {
			return false
		}
		if a.Ptr.Next != nil && a.Ptr.Next.V != b.Ptr.Next.V {
			return false
		}
	}
	return true
}

// HarnessC09Purity: params src, optimize, maxlen, longxs
func HarnessC09Purity() {
	src := vfParamStr("src")
	opt := vfParamInt("optimize") != 0
	sample := &vfEnv{}
	var sampleEnv interface{} = sample
	mapEnv := vfParamInt("mapenv") != 0
	if mapEnv {
		sampleEnv = vfSampleMapEnv()
	}
	var p1, p2 *vm.Program
	var err1, err2 error
	if mapEnv {
		vfMapOrder(true)
		p1, err1 = Compile(src, Env(sampleEnv), Optimize(opt))
		p2, err2 = Compile(src, Env(sampleEnv), Optimize(opt))
		vfMapOrder(false)
	} else {
		// no map is iterated when compiling against the struct environment: the first compilation is shared by
		// all paths (vfMemo), the second is a fresh one
		c := vfMemoCompile(src, 0, opt)
		p1, err1 = c.prog, c.err
		p2, err2 = Compile(src, Env(sample), Optimize(opt))
	}
	vfReach("c09.compiled-twice")
	vfAssert((err1 == nil) == (err2 == nil), "c09.same-source-same-options-same-verdict")
	if err1 != nil || err2 != nil {
		return
	}
	vfAssert(vfSameProgram(p1, p2), "c09.same-source-same-options-same-program")
	vfAssert(vfSameEnvData(sample, &vfEnv{}) && sample.Fn == nil, "c09.compile-does-not-modify-the-sample-environment")
	env := vfMakeEnv(src, vfParamInt("maxlen"))
	if vfParamInt("longxs") != 0 {
		env.Xs = make([]int, 40)
		for i := range env.Xs {
			env.Xs[i] = 40 - i
		}
	}
	envBefore := vfCopyEnv(env)
	progBefore := vfSnapProgram(p1)
	var runEnv, runEnv2 interface{} = env, envBefore
	if mapEnv {
		runEnv, runEnv2 = env.asMap(), envBefore.asMap()
	}
	out1, e1 := Run(p1, runEnv)
	vfReach("c09.ran")
	vfAssert(vfSameProgram(p1, progBefore), "c09.run-does-not-modify-the-program")
	vfAssert(vfSameEnvData(env, envBefore), "c09.run-does-not-modify-the-environment")
	out2, e2 := Run(p1, runEnv2)
	// and again on one long-lived VM value (the documented reuse mode), under a small budget
	if budget := vfParamInt("budget"); budget > 0 {
		saved := vm.MemoryBudget
		vm.MemoryBudget = budget
		machine := &vm.VM{}
		fo, fe := (&vm.VM{}).Run(p1, runEnv)
		o3, e3 := machine.Run(p1, runEnv)
		o4, e4 := machine.Run(p1, runEnv2)
		vm.MemoryBudget = saved
		vfAssert((e3 == nil) == (fe == nil) && (e4 == nil) == (fe == nil), "c09.rerun-on-equal-environment-same-outcome")
		if e3 == nil && e4 == nil && fe == nil {
			vfAssert(vfSameRerun(o3, fo) && vfSameRerun(o4, fo), "c09.rerun-on-equal-environment-equal-result")
		}
	}
	vfAssert((e1 == nil) == (e2 == nil), "c09.rerun-on-equal-environment-same-outcome")
	if e1 == nil && e2 == nil {
		vfAssert(vfSameRerun(out1, out2), "c09.rerun-on-equal-environment-equal-result")
	}
}

// vfSameRerun: results of two runs on EQUAL (not identical) environments: pointers are compared by what they point to.
func vfSameRerun(a, b interface{}) bool {
	if x, ok := a.(*vfNode); ok {
		y, ok := b.(*vfNode)
		if !ok || (x == nil) != (y == nil) {
			return false
		}
		if x == nil {
			return true
		}
		return x.V == y.V && vfSameRerun(x.Next, y.Next)
	}
	if xs, ok := vfSeq(a); ok {
		ys, ok := vfSeq(b)
		if !ok || len(xs) != len(ys) {
			return false
		}
		for i := range xs {
			if !vfSameRerun(xs[i], ys[i]) {
				return false
			}
		}
		return true
	}
	return vfSame(a, b)
}

// HarnessC09History: what was compiled before in the process does not change a compilation.
func HarnessC09History() {
	src := vfParamStr("src")
	mk := func(k int) []Option {
		switch k {
		case 0:
			return []Option{Env(vfEnv{})}
		case 1:
			return []Option{Env(&vfEnv{})}
		case 2:
			return []Option{Env(vfSampleMapEnv())}
		case 3:
			return []Option{Env(&vfEnv{}), AllowUndefinedVariables()}
		}
		return nil
	}
	first := vfChoice("first", 5)
	between := vfChoice("between", 5)
	p1, err1 := Compile(src, mk(first)...)
	Compile(src, mk(between)...)
	Compile("PtrAdd(1) + Twice(2)", mk(between)...)
	p3, err3 := Compile(src, mk(first)...)
	vfReach("c09.history.compiled")
	vfAssert((err1 == nil) == (err3 == nil), "c09.history.same-verdict")
	if err1 == nil && err3 == nil {
		vfAssert(vfSameProgram(p1, p3), "c09.history.same-program")
	}
}
