package expr

// ---------------------------------------------------------------------------------
// C17: with an operator mapped to environment functions, every occurrence whose operand types match
// a function's parameters evaluates to that function applied to the operands in order, wherever it sits;
// other occurrences keep the built-in meaning; ill-shaped mappings are rejected at compile time.
//
// Each job gives the operator form and the explicit-call form of one expression; both are compiled by
// the real pipeline (the operator form with expr.Operator), run on the real VM with symbolic member
// values and uninterpreted overload functions; results and call logs must be equal.

type vfVec struct{ X int }

type vfStringer interface{ Str() string }

func (v vfVec) Str() string { return "vec" }

type vfOvEnv struct {
	V, W     vfVec
	A, B     int
	P        bool
	Xs       []vfVec
	Pv       *vfVec
	Dyn      interface{}
	AddVec   func(a, b vfVec) vfVec
	AddMixed func(a vfVec, b int) vfVec
	AddIface func(a, b vfStringer) vfVec
	SubVec   func(a, b vfVec) vfVec
	EqVec    func(a, b vfVec) bool
	Id       func(a vfVec) vfVec
	Two      func(a, b vfVec) (vfVec, error)
	One      func(a vfVec) vfVec
	EqPv     func(a, b *vfVec) bool
	Three    func(a, b, c vfVec) vfVec
	NotFunc  int
}

func (e *vfOvEnv) Plus(a, b vfVec) vfVec {
	vfLog = append(vfLog, vfCall{"Plus", a.X, b.X})
	return vfVec{vfUFInt("Plus", a.X, b.X)}
}

func vfMakeOvEnv() *vfOvEnv {
	e := &vfOvEnv{V: vfVec{vfInt("V.X")}, W: vfVec{vfInt("W.X")}, A: vfInt("A"), B: vfInt("B"), P: vfBool("P")}
	e.Xs = []vfVec{{vfInt("Xs0.X")}, {vfInt("Xs1.X")}}
	if vfBool("Pv") {
		e.Pv = &vfVec{vfInt("Pv.X")}
	}
	e.Dyn = []int{10, 20, 30}
	e.AddVec = func(a, b vfVec) vfVec {
		vfLog = append(vfLog, vfCall{"AddVec", a.X, b.X})
		return vfVec{vfUFInt("AddVec", a.X, b.X)}
	}
	e.AddMixed = func(a vfVec, b int) vfVec {
		vfLog = append(vfLog, vfCall{"AddMixed", a.X, b})
		return vfVec{vfUFInt("AddMixed", a.X, b)}
	}
	e.AddIface = func(a, b vfStringer) vfVec {
		vfLog = append(vfLog, vfCall{"AddIface", a.(vfVec).X, b.(vfVec).X})
		return vfVec{vfUFInt("AddIface", a.(vfVec).X, b.(vfVec).X)}
	}
	e.SubVec = func(a, b vfVec) vfVec {
		vfLog = append(vfLog, vfCall{"SubVec", a.X, b.X})
		return vfVec{vfUFInt("SubVec", a.X, b.X)}
	}
	e.EqVec = func(a, b vfVec) bool {
		vfLog = append(vfLog, vfCall{"EqVec", a.X, b.X})
		return vfUFBool("EqVec", a.X, b.X)
	}
	e.EqPv = func(a, b *vfVec) bool {
		vfLog = append(vfLog, vfCall{"EqPv", 0, 0})
		return a == b
	}
	e.Three = func(a, b, c vfVec) vfVec { return a }
	e.Id = func(a vfVec) vfVec { return a }
	e.Two = func(a, b vfVec) (vfVec, error) { return a, nil }
	e.One = func(a vfVec) vfVec { return a }
	return e
}

func vfOvOptions(table int) []Option {
	ops := []Option{Env(&vfOvEnv{})}
	switch table {
	case 0:
		ops = append(ops, Operator("+", "AddVec"))
	case 1:
		ops = append(ops, Operator("+", "AddVec", "AddMixed"))
	case 2:
		ops = append(ops, Operator("+", "AddIface", "AddVec"))
	case 3:
		ops = append(ops, Operator("+", "Plus"))
	case 4:
		ops = append(ops, Operator("+", "AddVec"), Operator("-", "SubVec"), Operator("==", "EqVec"))
	case 5:
		ops = append(ops, Operator("+", "AddMixed", "AddVec"))
	case 6:
		ops = append(ops, Operator("+", "Plus", "AddVec"))
	case 7:
		ops = append(ops, Operator("+", "AddMixed", "Plus"))
	case 8:
		ops = append(ops, Operator("==", "EqPv"))
	}
	return ops
}

func vfSameOv(a, b interface{}) bool {
	switch x := a.(type) {
	case vfVec:
		y, ok := b.(vfVec)
		return ok && x == y
	case []interface{}:
		y, ok := b.([]interface{})
		if !ok || len(x) != len(y) {
			return false
		}
		for i := range x {
			if !vfSameOv(x[i], y[i]) {
				return false
			}
		}
		return true
	case []vfVec:
		y, ok := b.([]vfVec)
		if !ok || len(x) != len(y) {
			return false
		}
		for i := range x {
			if x[i] != y[i] {
				return false
			}
		}
		return true
	}
	return vfSame(a, b)
}

// HarnessC17Overload: params opsrc, callsrc, table
func HarnessC17Overload() {
	opsrc, callsrc := vfParamStr("opsrc"), vfParamStr("callsrc")
	table := vfParamInt("table")
	pOp, err := Compile(opsrc, vfOvOptions(table)...)
	if err != nil {
		vfFail("c17.operator-form-does-not-compile")
	}
	pCall, err := Compile(callsrc, Env(&vfOvEnv{}))
	if err != nil {
		vfFail("c17.call-form-does-not-compile")
	}
	e := vfMakeOvEnv()
	vfLog = nil
	o1, e1 := Run(pOp, e)
	l1 := vfLog
	vfLog = nil
	o2, e2 := Run(pCall, e)
	l2 := vfLog
	vfReach("c17.ran")
	vfAssert((e1 != nil) == (e2 != nil), "c17.operator-form-fails-like-call-form")
	if e1 == nil && e2 == nil {
		vfAssert(vfSameOv(o1, o2), "c17.operator-form-equals-call-form")
		vfAssert(vfSameLog(l1, l2), "c17.same-function-applied-to-the-operands-in-order")
	}
}

// HarnessC17Config: a mapping that names a missing or ill-shaped function is rejected at compile time.
func HarnessC17Config() {
	names := []string{"Missing", "NotFunc", "One", "Two", "Twice3", "V", "Three"}
	bad := names[vfChoice("bad", len(names))]
	good := []string{"AddVec", "Plus"}[vfChoice("good", 2)]
	pos := vfChoice("pos", 2)
	fns := []string{good}
	if pos == 0 {
		fns = []string{bad, good}
	} else {
		fns = []string{good, bad}
	}
	_, err := Compile("V + W", Env(&vfOvEnv{}), Operator("+", fns...))
	vfReach("c17.config.checked")
	vfAssert(err != nil, "c17.ill-shaped-mapping-is-rejected")
	_, err = Compile("A + B", Env(&vfOvEnv{}), Operator("+", "AddVec"))
	vfAssert(err == nil, "c17.well-shaped-mapping-is-accepted")
	_, err = Compile("V + W", Env(&vfOvEnv{}), Operator("+", "Plus", "AddVec", "AddMixed"))
	vfAssert(err == nil, "c17.well-shaped-mapping-is-accepted")
}
