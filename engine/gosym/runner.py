# Runner: executes the harness jobs of one property in parallel, replays counterexamples natively
# against /repo, applies known findings, prints VIOLATION / KNOWN-FINDING / INCONCLUSIVE lines,
# writes evidence/<id>.json.
import json, os, sys, time, subprocess, tempfile, shutil, multiprocessing, traceback, re, glob, hashlib
import engine
from engine import VERIF, REPO, MOD, GOENV

_PROG = None


def _init_worker():
    global _PROG
    _PROG = engine.load_program()


def _job(args):
    name, init_pkgs, prefixes, opts = args
    try:
        prog, key = _PROG
        ex = engine.Explorer(prog, opts.get('timeout_ms', 60000))
        if 'max_paths' in opts: ex.max_paths = opts['max_paths']
        if 'split_after' in opts: ex.split_after = opts['split_after']
        ex.cross_budget = int(os.environ.get('VERIF_CROSSCHECK', '0') or 0)
        if 'instr_budget' in opts: ex.it.instr_budget = opts['instr_budget']
        if 'max_loop' in opts: ex.it.max_loop = opts['max_loop']
        if opts.get('panic_ok'): ex.uncaught_panic_is_violation = False
        ex.params = opts.get('params', {})
        setup = None
        if opts.get('setup'):
            import importlib
            modname, fname = opts['setup'].split(':')
            setup = getattr(importlib.import_module(modname), fname)
            if opts.get('setup_once', True):
                setup(ex); setup = None
        t = time.time()
        import signal
        def on_alarm(sig, frm):
            raise engine.JobTimeout()
        signal.signal(signal.SIGALRM, on_alarm)
        signal.alarm(int(opts.get('job_timeout', 900)))
        try:
            ex.run(name, init_pkgs, prefixes, setup)
        except engine.JobTimeout:
            ex.inconclusive.append(('job-timeout', opts.get('label', name)))
        finally:
            signal.alarm(0)
        s = ex.summary()
        s['wall_s'] = round(time.time() - t, 3)
        s['harness'] = name
        s['prefixes'] = prefixes
        s['label'] = opts.get('label')
        s['opts'] = opts; s['init_pkgs'] = init_pkgs
        return s
    except SystemExit:
        return {'harness': name, 'error': 'machinery exit', 'prefixes': prefixes}
    except Exception:
        return {'harness': name, 'error': traceback.format_exc(), 'prefixes': prefixes}


def pkg_of(harness_full):
    p = harness_full.rsplit('.', 1)[0]
    rel = p[len(MOD):].lstrip('/')
    return rel or '.'


NATIVE_TMPL = r'''package PKGNAME

import (
	"encoding/json"
	"fmt"
	"math"
	"os"
	"strconv"
)

type vfRec struct {
	Fn    string          `json:"fn"`
	Name  string          `json:"name"`
	Value json.RawMessage `json:"value"`
}

var vfRecs []vfRec
var vfPos int
var vfFailed []string
var vfReached []string
var vfDesync bool

func vfLoad(path string) {
	b, err := os.ReadFile(path)
	if err != nil {
		panic(err)
	}
	var doc struct {
		Inputs []vfRec `json:"inputs"`
	}
	if err := json.Unmarshal(b, &doc); err != nil {
		panic(err)
	}
	vfRecs, vfPos, vfFailed, vfReached, vfDesync = doc.Inputs, 0, nil, nil, false
}

type vfStop struct{ why string }

func vfNext(fn, name string) json.RawMessage {
	if vfPos >= len(vfRecs) {
		// the solver's path ended before this point (path ended at the failed assertion): any value will do
		vfDesync = true
		return json.RawMessage("0")
	}
	r := vfRecs[vfPos]
	vfPos++
	if r.Fn != fn || r.Name != name {
		vfDesync = true
		fmt.Printf("VFDESYNC want %s(%s) got %s(%s)\n", r.Fn, r.Name, fn, name)
	}
	return r.Value
}

func vfU(raw json.RawMessage) uint64 {
	s := string(raw)
	if s == "true" {
		return 1
	}
	if s == "false" {
		return 0
	}
	if len(s) > 0 && s[0] == '{' {
		var f struct {
			Fbits uint64 `json:"fbits"`
		}
		json.Unmarshal(raw, &f)
		return f.Fbits
	}
	if len(s) > 0 && s[0] == '-' {
		v, _ := strconv.ParseInt(s, 10, 64)
		return uint64(v)
	}
	v, _ := strconv.ParseUint(s, 10, 64)
	return v
}

func vfInt(name string) int         { return int(vfU(vfNext("vfInt", name))) }
func vfInt8(name string) int8       { return int8(vfU(vfNext("vfInt8", name))) }
func vfInt16(name string) int16     { return int16(vfU(vfNext("vfInt16", name))) }
func vfInt32(name string) int32     { return int32(vfU(vfNext("vfInt32", name))) }
func vfInt64(name string) int64     { return int64(vfU(vfNext("vfInt64", name))) }
func vfUint(name string) uint       { return uint(vfU(vfNext("vfUint", name))) }
func vfUint8(name string) uint8     { return uint8(vfU(vfNext("vfUint8", name))) }
func vfUint16(name string) uint16   { return uint16(vfU(vfNext("vfUint16", name))) }
func vfUint32(name string) uint32   { return uint32(vfU(vfNext("vfUint32", name))) }
func vfUint64(name string) uint64   { return vfU(vfNext("vfUint64", name)) }
func vfByte(name string) byte       { return byte(vfU(vfNext("vfByte", name))) }
func vfRune(name string) rune       { return rune(vfU(vfNext("vfRune", name))) }
func vfFloat32(name string) float32 { return math.Float32frombits(uint32(vfU(vfNext("vfFloat32", name)))) }
func vfFloat64(name string) float64 { return math.Float64frombits(vfU(vfNext("vfFloat64", name))) }
func vfBool(name string) bool       { return vfU(vfNext("vfBool", name)) != 0 }
func vfChoice(name string, n int) int {
	return int(vfU(vfNext("vfChoice", name)))
}
func vfStrOf(raw json.RawMessage) string {
	var f struct {
		Str []byte `json:"-"`
		S   []int  `json:"str"`
	}
	json.Unmarshal(raw, &f)
	b := make([]byte, len(f.S))
	for i, x := range f.S {
		b[i] = byte(x)
	}
	return string(b)
}
func vfParamStr(name string) string { return vfStrOf(vfNext("vfParamStr", name)) }
func vfBytes(name string, n int) string { return vfStrOf(vfNext("vfBytes", name)) }
func vfParamInt(name string) int    { return int(vfU(vfNext("vfParamInt", name))) }
func vfChoiceStr(name string, opts ...string) string {
	return opts[int(vfU(vfNext("vfChoiceStr", name)))%len(opts)]
}
func vfUFInt(name string, args ...int) int {
	return int(vfU(vfNext("vfUFInt", name)))
}
func vfUFBool(name string, args ...int) bool {
	return vfU(vfNext("vfUFBool", name)) != 0
}
func vfAssume(ok bool) {
	if !ok {
		panic(vfStop{"assume"})
	}
}
func vfAssert(ok bool, id string) {
	if !ok {
		vfFailed = append(vfFailed, id)
		fmt.Printf("VFASSERT-FAIL %s\n", id)
	}
}
func vfReach(id string) { vfReached = append(vfReached, id) }
func vfFail(id string) {
	vfFailed = append(vfFailed, id)
	fmt.Printf("VFASSERT-FAIL %s\n", id)
	panic(vfStop{"fail"})
}
func vfNote(s string) {}
func vfNative() bool { return true }
func vfSharedBegin(objs ...interface{}) {}
func vfSharedEnd() {}
func vfMapOrder(on bool) {}
func vfAllocCap(n int, id string) {}
'''

TEST_TMPL = r'''package PKGNAME

import (
	"fmt"
	"os"
	"strings"
	"testing"
)

var vfHarnesses = map[string]func(){
HARNESSMAP
}

func TestVerifReplay(t *testing.T) {
	for _, spec := range strings.Split(os.Getenv("VERIF_REPLAY"), ",") {
		if spec == "" {
			continue
		}
		parts := strings.SplitN(spec, "=", 2)
		h := vfHarnesses[parts[0]]
		if h == nil {
			fmt.Printf("VFREPLAY %s NOHARNESS\n", spec)
			continue
		}
		func() {
			defer func() {
				if r := recover(); r != nil {
					if s, ok := r.(vfStop); ok {
						fmt.Printf("VFREPLAY %s STOP %s failed=%v\n", spec, s.why, vfFailed)
						return
					}
					fmt.Printf("VFREPLAY %s PANIC %v failed=%v\n", spec, r, vfFailed)
					return
				}
				fmt.Printf("VFREPLAY %s DONE failed=%v desync=%v reached=%v\n", spec, vfFailed, vfDesync, vfReached)
			}()
			vfLoad(parts[1])
			h()
		}()
	}
}
'''


def go_pkg_name(rel):
    if rel == '.': return 'expr'
    return rel.rsplit('/', 1)[-1]


def native_replay(specs, timeout=600, race=False):
    """specs: list of (harness_full_name, json_path). Returns dict json_path -> (status, failed_ids, raw line)."""
    by_pkg = {}
    for h, p in specs:
        by_pkg.setdefault(pkg_of(h), []).append((h, p))
    results = {}
    for rel, items in by_pkg.items():
        tmp = tempfile.mkdtemp(prefix='verif_replay_')
        try:
            hdir = os.path.join(VERIF, 'harness', rel)
            pkgdir = os.path.join(REPO, rel) if rel != '.' else REPO
            repl = {}
            names = set()
            for f in sorted(glob.glob(os.path.join(hdir, 'zz_verif_*.go'))):
                base = os.path.basename(f)
                if base == 'zz_verif_sym.go' or base.endswith('_symonly.go'):
                    continue
                repl[os.path.join(pkgdir, base)] = f
                for m in re.finditer(r'^func (Harness\w+)\(\)', open(f).read(), re.M):
                    names.add(m.group(1))
            pk = go_pkg_name(rel)
            nat = os.path.join(tmp, 'zz_verif_native.go')
            open(nat, 'w').write(NATIVE_TMPL.replace('PKGNAME', pk))
            tst = os.path.join(tmp, 'zz_verif_replay_test.go')
            hm = '\n'.join('\t"%s": %s,' % (n, n) for n in sorted(names))
            open(tst, 'w').write(TEST_TMPL.replace('PKGNAME', pk).replace('HARNESSMAP', hm))
            repl[os.path.join(pkgdir, 'zz_verif_native.go')] = nat
            repl[os.path.join(pkgdir, 'zz_verif_replay_test.go')] = tst
            ov = os.path.join(tmp, 'overlay.json')
            json.dump({'Replace': repl}, open(ov, 'w'))
            env = dict(GOENV)
            env['VERIF_REPLAY'] = ','.join('%s=%s' % (h.rsplit('.', 1)[-1], p) for h, p in items)
            r = subprocess.run(['go', 'test', '-vet=off', '-count=1', '-v'] + (['-race'] if race else []) + ['-run', '^TestVerifReplay$', '-overlay', ov, '-timeout', '%ds' % timeout,
                                './' + rel if rel != '.' else '.'], cwd=REPO, env=env, capture_output=True, text=True, timeout=timeout + 60)
            out = r.stdout + r.stderr
            for h, p in items:
                spec = '%s=%s' % (h.rsplit('.', 1)[-1], p)
                line = None
                for l in out.splitlines():
                    if l.startswith('VFREPLAY ' + spec + ' '):
                        line = l
                if line is None:
                    results[p] = ('norun', [], out[-2000:])
                    continue
                rest = line[len('VFREPLAY ' + spec + ' '):]
                status = rest.split(' ', 1)[0]
                m = re.search(r'failed=\[([^\]]*)\]', rest)
                failed = m.group(1).split() if m and m.group(1) else []
                if race and 'DATA RACE' in out:
                    # the race detector saw an unsynchronised access while the harness ran the program concurrently
                    failed.append('c08.unsynchronised-write-to-shared-state')
                    rest += ' DATA-RACE-REPORTED'
                results[p] = (status, failed, rest)
        finally:
            shutil.rmtree(tmp, ignore_errors=True)
    return results


def load_known():
    p = os.path.join(VERIF, 'known_findings.json')
    if not os.path.exists(p):
        return {'known': [], 'fixed': []}
    return json.load(open(p))


def _param_str(v, names=('src', 'lhs')):
    for i in v['inputs']:
        if i['fn'] == 'vfParamStr' and i['name'] in names and isinstance(i['value'], dict):
            return bytes(i['value']['str']).decode('utf-8', 'replace')
    return None


def match_known(known, prop, v):
    """a known finding matches by property, harness, assertion id(s), optionally the template source (src) and
    a witness-class predicate over named inputs (where); anything else is a new violation"""
    for k in known.get('known', []):
        asserts = k['assert'] if isinstance(k['assert'], list) else [k['assert']]
        if k['property'] != prop or k['harness'] != v['harness'] or v['assert'] not in asserts:
            continue
        if 'src' in k and _param_str(v) not in k['src']:
            continue
        if 'src_re' in k and not re.search(k['src_re'], _param_str(v) or ''):
            continue
        cls = k.get('where')
        if cls:
            vals = {}
            for i in v['inputs']:
                vals.setdefault(i['name'], i['value'])
            if any(vals.get(name) not in allowed for name, allowed in cls.items()):
                continue
        return k
    return None


def run_property(prop, tier, jobs, meta, seed=0, procs=None):
    """jobs: list of (harness_full, init_pkgs, prefixes|None, opts)."""
    t0 = time.time()
    engine.load_program()  # build the dump once (content-keyed) before forking workers
    procs = procs or (16 if any('split_after' in j[3] for j in jobs) else min(16, max(1, len(jobs))))
    if seed:
        import random
        random.Random(seed).shuffle(jobs)
    results = []
    progress = os.environ.get('VERIF_PROGRESS')
    njobs = len(jobs)
    with multiprocessing.Pool(procs, initializer=_init_worker) as pool:
      wave = list(jobs)
      while wave:
        nxt = []
        for r in pool.imap_unordered(_job, wave, chunksize=1):
            results.append(r)
            lo = r.get('leftover') or []
            if lo:
                o = dict(r['opts']); o['split_after'] = int(o.get('split_after', 50) * 2)
                per = max(1, len(lo) // 4)
                for k in range(0, len(lo), per):
                    nxt.append((r['harness'], r['init_pkgs'], lo[k:k + per], o))
            if progress:
                print('[%d/%d] %.1fs %s %s paths=%s viol=%s %s' % (len(results), len(jobs), r.get('wall_s', -1), r['harness'].rsplit('.', 1)[-1], r.get('label') or r.get('prefixes'),
                      r.get('paths'), len(r.get('violations', [])), (str(r.get('unsupported') or '') + (r.get('error') or ''))[-200:].replace('\n', ' | ')), file=sys.stderr, flush=True)
        wave = nxt
        njobs += len(nxt)
    jobs = [None] * njobs
    results.sort(key=lambda r: (r['harness'], str(r.get('label')), str(r.get('prefixes'))))
    agg = {'paths': 0, 'instrs': 0, 'q_sat': 0, 'q_unsat': 0, 'q_unknown': 0, 'solver_s': 0.0, 'proved': 0, 'failed': 0,
           'unsupported': {}, 'unwind': 0, 'reach': {}, 'cuts': {}, 'functions': set(), 'samples': [], 'inconclusive': [], 'errors': [], 'outcomes': {}}
    viols = []
    wits = []
    cross = []
    for r in results:
        if 'error' in r:
            agg['errors'].append((r['harness'], r['error'][-1500:]))
            continue
        agg['paths'] += r['paths']; agg['instrs'] += r['instrs']
        agg['q_sat'] += r['queries']['sat']; agg['q_unsat'] += r['queries']['unsat']; agg['q_unknown'] += r['queries']['unknown']
        agg['solver_s'] += r['solver_s']; agg['proved'] += r['asserts_proved']; agg['failed'] += r['asserts_failed']
        agg['unwind'] += r['unwind']
        for k, v in r['unsupported'].items(): agg['unsupported'][k] = agg['unsupported'].get(k, 0) + v
        for k, v in r['reach'].items(): agg['reach'][k] = agg['reach'].get(k, 0) + v
        for k, v in r.get('cuts', {}).items(): agg['cuts'][k] = agg['cuts'].get(k, 0) + v
        for k, v in r['outcomes'].items(): agg['outcomes'][k] = agg['outcomes'].get(k, 0) + v
        agg['functions'].update(f for f in r['functions'] if '/harness' not in f)
        for s in r['samples']:
            if len(agg['samples']) < 10 and not any(x['assert'] == s['assert'] for x in agg['samples']):
                agg['samples'].append(s)
        agg['inconclusive'].extend(r['inconclusive'])
        for v in r['violations']:
            v['harness_full'] = r['harness']
            viols.append(v)
        for cx in r.get('cross', []):
            cross.append(cx)
        for w in r.get('witnesses', []):
            w['harness_full'] = r['harness']
            wits.append(w)
    # ------------------------------------------------------------ replay
    rdir = os.path.join(os.environ.get('VERIF_REPLAY_DIR', os.path.join(VERIF, 'replays')), prop)
    shutil.rmtree(rdir, ignore_errors=True)
    os.makedirs(rdir, exist_ok=True)
    specs = []
    for n, v in enumerate(viols):
        p = os.path.join(rdir, 'cex_%03d.json' % n)
        json.dump(v, open(p, 'w'), indent=1)
        v['replay'] = p
        specs.append((v['harness_full'], p))
    confirmed, spurious = [], []
    replayed = 0
    if specs:
        try:
            rr = native_replay(specs, race=(prop == 'C08'))
        except Exception as e:
            rr = {}
            agg['errors'].append(('replay', str(e)))
        for v in viols:
            st = rr.get(v['replay'])
            if st is None:
                v['replay_status'] = 'norun'; spurious.append(v); continue
            replayed += 1
            status, failed, raw = st
            v['replay_status'] = raw[:300]
            if v['assert'] == 'uncaught-panic':
                ok = status == 'PANIC'
            else:
                ok = v['assert'] in failed
            (confirmed if ok else spurious).append(v)
            json.dump(v, open(v['replay'], 'w'), indent=1)
    # ------------------------------------------------------------ translator validation: replay witnesses of completed paths
    wit_ok = wit_bad = 0
    wit_lines = []
    if wits and not os.environ.get('VERIF_NO_WITNESS'):
        import random
        rnd = random.Random(seed)
        by_h = {}
        for w in wits: by_h.setdefault(w['harness'], []).append(w)
        chosen = []
        per = max(1, 40 // max(1, len(by_h)))
        for h, ws in sorted(by_h.items()):
            rnd.shuffle(ws); chosen.extend(ws[:per])
        wspecs = []
        for n, w in enumerate(chosen):
            pth = os.path.join(rdir, 'wit_%03d.json' % n)
            json.dump(w, open(pth, 'w'), indent=1)
            w['replay'] = pth
            wspecs.append((w['harness_full'], pth))
        try:
            wr = native_replay(wspecs)
        except Exception as e:
            wr = {}
            agg['errors'].append(('witness-replay', str(e)))
        for w in chosen:
            st = wr.get(w['replay'])
            if st is None or st[0] == 'norun':
                continue
            status, failed, raw = st
            m = re.search(r'reached=\[([^\]]*)\]', raw)
            reached = m.group(1).split() if m and m.group(1) else []
            good = status == 'DONE' and not failed and 'desync=true' not in raw and all(x in reached for x in w['reached'])
            if good: wit_ok += 1
            else:
                wit_bad += 1
                wit_lines.append('INCONCLUSIVE property=%s translator validation: the native run of a completed symbolic path of %s differs (%s) replay=%s' % (prop, w['harness'], raw[:160], w['replay']))
    replayed += wit_ok + wit_bad
    known = load_known()
    rc = 0
    lines = list(wit_lines)
    cross_sum = {'queries': len(cross), 'agree': 0, 'disagree': 0, 'unknown_or_error': 0}
    for cx in cross:
        others = [cx.get('z3-4.8.12'), cx.get('cvc5-1.0')]
        if any(o == 'sat' for o in others):
            cross_sum['disagree'] += 1
            lines.append('INCONCLUSIVE property=%s solvers disagree on a discharged query (assert %s in %s): %s' % (prop, cx['assert'], cx['harness'], cx))
        elif all(o == 'unsat' for o in others): cross_sum['agree'] += 1
        else: cross_sum['unknown_or_error'] += 1
    kf_seen = set()
    new_viol = 0
    for v in confirmed:
        k = match_known(known, prop, v)
        if k is not None:
            if k['id'] not in kf_seen:
                kf_seen.add(k['id'])
                lines.append('KNOWN-FINDING: property=%s %s' % (prop, k['what']))
            continue
        new_viol += 1
        lines.append('VIOLATION property=%s replay=%s' % (prop, v['replay']))
        rc = 1
    for v in spurious:
        lines.append('SPURIOUS property=%s assert=%s harness=%s replay=%s status=%s (model did not reproduce natively: encoding/stub/invariant problem, not reported as violation)' % (
            prop, v['assert'], v['harness'], v['replay'], v.get('replay_status', '')[:120]))
    if agg['errors']:
        for h, e in agg['errors'][:5]:
            lines.append('INCONCLUSIVE property=%s machinery error in %s: %s' % (prop, h, e.strip().splitlines()[-1] if e.strip() else ''))
    for k, n in agg['unsupported'].items():
        lines.append('INCONCLUSIVE property=%s unsupported=%s paths=%d' % (prop, k, n))
    if agg['unwind']:
        lines.append('INCONCLUSIVE property=%s unwinding bound reached on %d paths' % (prop, agg['unwind']))
    nto = sum(1 for x in agg['inconclusive'] if x[0] == 'job-timeout')
    if nto:
        lines.append('INCONCLUSIVE property=%s %d jobs stopped at the per-job time limit (partial exploration): %s' % (prop, nto, '; '.join(str(x[1]) for x in agg['inconclusive'] if x[0] == 'job-timeout')[:600]))
    if agg['q_unknown']:
        lines.append('INCONCLUSIVE property=%s solver returned unknown on %d queries' % (prop, agg['q_unknown']))
    for k in meta.get('must_reach', []):
        if not agg['reach'].get(k):
            lines.append('INCONCLUSIVE property=%s vacuous: reachability marker %s not reached' % (prop, k))
    wall = time.time() - t0
    ev = {
        'property_id': prop, 'tier': tier, 'seed': seed, 'level': 'model_checking',
        'coverage': {
            'states': max(agg['paths'], 0), 'transitions': agg['instrs'],
            'traces_validated_against_impl': replayed,
            'samples': agg['samples'] or [{'note': 'no assertion reached'}],
            'explanation': meta.get('explanation', ''),
            'functions_encoded': sorted(agg['functions'])[:400],
            'bounds': meta.get('bounds', {}),
            'outside_claim': meta.get('outside', []),
            'queries': {'sat': agg['q_sat'], 'unsat': agg['q_unsat'], 'unknown': agg['q_unknown']},
            'solver_s': round(agg['solver_s'], 2),
            'assertions_discharged': agg['proved'], 'assertions_violated': agg['failed'],
            'path_outcomes': agg['outcomes'], 'reachability_markers': agg['reach'], 'paths_cut_outside_bound': agg['cuts'],
            'inconclusive': {'unsupported': agg['unsupported'], 'unwind': agg['unwind'], 'errors': [e[0] for e in agg['errors']]},
            'jobs': len(jobs), 'confirmed_violations': len(confirmed), 'spurious_models': len(spurious),
            'witness_paths_replayed_natively': {'agree': wit_ok, 'differ': wit_bad},
            'cross_solver_recheck': cross_sum,
            'known_findings_seen': sorted(kf_seen),
            'exhaustive': False,
        },
        'assumptions': meta.get('assumptions', []),
        'wall_s': round(wall, 2),
        'violations': new_viol,
    }
    evdir = os.environ.get('VERIF_EVIDENCE_DIR', os.path.join(VERIF, 'evidence'))
    os.makedirs(evdir, exist_ok=True)
    json.dump(ev, open(os.path.join(evdir, prop + '.json'), 'w'), indent=1, default=str)
    for l in lines:
        print(l)
    print('SUMMARY property=%s tier=%s paths=%d instrs=%d asserts_discharged=%d violated=%d confirmed=%d spurious=%d queries(sat/unsat/unknown)=%d/%d/%d solver_s=%.1f wall_s=%.1f' % (
        prop, tier, agg['paths'], agg['instrs'], agg['proved'], agg['failed'], len(confirmed), len(spurious), agg['q_sat'], agg['q_unsat'], agg['q_unknown'], agg['solver_s'], wall))
    return rc
