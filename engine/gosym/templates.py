# Template sources for the program-level (M2) harnesses: a typed grammar over the harness
# environment (harness/zz_verif_ref.go: vfEnv). Sub-expressions are always parenthesised, so the
# templates do not depend on precedence (C11 checks that separately).
import itertools

# hole syntax: {I} int, {B} bool, {S} string, {L} []int, {F} float64; lower-case = same type inside a closure body (# allowed)
PRODS = {
    'I': [
        '{I} + {I}', '{I} - {I}', '{I} * {I}', '{I} / {I}', '{I} % {I}', '-{I}', '+{I}',
        '{L}[{I}]', 'len({L})', 'len({S})', 'count({L}, {{{b}}})', '{B} ? {I} : {I}',
        'Fn({I})', 'Twice({I})', 'M.a', 'M["b"]', 'M[{S}]', 'Ptr.V', 'Ptr.Next.V', 'len(M)',
        'Fn({I}) + Hf({I})', 'len([{I}, {I}])',
    ],
    'B': [
        '{I} == {I}', '{I} != {I}', '{I} < {I}', '{I} <= {I}', '{I} > {I}', '{I} >= {I}',
        '{B} and {B}', '{B} or {B}', 'not {B}', '{B} && {B}', '{B} || {B}', '!{B}',
        '{I} in {L}', '{I} not in {L}', '{S} in M', '{I} in [{I}, {I}]', '{I} in {I}..{I}', '{I} in 1..3', '{I} not in 0..2', '{I} in [1, 2, 3]',
        'all({L}, {{{b}}})', 'any({L}, {{{b}}})', 'none({L}, {{{b}}})', 'one({L}, {{{b}}})',
        '{S} contains {S}', '{S} startsWith {S}', '{S} endsWith {S}', '{S} matches "^a"', '{S} == {S}', '{S} < {S}',
        '{B} ? {B} : {B}', 'Gn({I}, {I})', 'Pf({I})', 'Ptr == nil', 'Ptr?.Next == nil', '{B} == {B}',
        'Gn(Fn({I}), Hf({I}))', '{F} < {F}', '{I} < {F}', '{F} == {I}',
    ],
    'S': ['{S} + {S}', '{S}[{I}:{I}]', '{S}[:{I}]', '{S}[{I}:]', '{B} ? {S} : {S}'],
    'L': ['{L}[{I}:{I}]', '{L}[:{I}]', '{L}[{I}:]', 'filter({L}, {{{b}}})', 'map({L}, {{{i}}})', '{B} ? {L} : {L}'],
    'F': ['{F} + {F}', '{F} * {I}', '{I} / {F}', '{F} - {I}', '-{F}', '{I} ** {I}', '{B} ? {F} : {F}'],
}
# results that are not one of the five types are produced only at the top
# nested collections, string collections, float / dynamic needles (shapes that need a richer environment)
RICH = [
    'map(Xss, {count(#, {# > A})})', 'map(Xss, {len(#)})', 'filter(Xss, {any(#, {Pf(#)})})', 'any(Xss, {none(#, {# == A})})', 'map(Xss, {map(#, {# + A})})',
    'count(Xss, {one(#, {Pf(#)})})', 'map(Xss, {filter(#, {# > A})})', 'map(Xss, {#[0]})', 'all(Xss, {len(#) > 0 and #[0] > A})', 'map(Xss, {all(#, {Qf(#, A)})})',
    'S matches "S"', 'T == "^a" or S matches "^a"', 'S matches "^a" and T == "^a"', 'map(Ss, {S matches #})', 'filter(Ss, {# matches "^a"})', 'count(Ss, {S contains #})', 'map(Ss, {# + S})', 'S in Ss', 'any(Ss, {# == S})', 'map(Ss, {T matches #})', 'Ss[A]', 'len(Ss)',
    'F in Xs', 'F in 1..3', 'F in [1, 2]', '1.5 in Xs', 'F not in Ys', 'count(Xs, {F in Ys})', 'filter(Xs, {# in [F, 1.5]})', 'F in A..B',
    'Any in [1, 2, 3]', 'Any == 1', 'Any in Xs', 'Any in 1..3', 'Any == nil', 'Any in ["a", "b"]', 'Any != A',
]
TOP_EXTRA = ['I8 == {I}', '{I} == I8', 'I8 == U8', 'U8 == I8', 'I8 in Xs', 'I8 + {I}', 'I8 * I8', 'I64 == I8', 'I8 < {I}', '-I8', 'count(Xs, {{# == I8}})', '{I} == U8', 'I64 == {I}', '{I} == I64', 'U8 == I64', 'I64 == U8', '{I} != U8', 'U8 in Xs', 'A in [U8, I64]', '{I} < U8', 'I64 >= U8', 'Pair(A, B)[1]', 'Pair(A, B, 3)[2] - Pair(B, A)[1]', 'Pair(A)[0] + Pair(B, A)[0]', 'Vv(A, B)', 'Vf(S, A)', 'Ptr?.V', 'Ptr?.Next?.V', 'Ptr.Next', '[{I}, {B}]', '{{a: {I}, b: {S}}}', '{L}', '{S}[{I}]', 'M', 'nil', '{B} ? {I} : nil', '{I}..{I}', 'I64 + {I}', 'U8 + {I}', 'U8 * U8', 'I64 / {I}', '-U8', 'U8 == {I}', 'I64 < {F}',
             'FnU8(U8)', 'FnI64(I64)', 'FnF({F})', 'map({L}, {{[#, {I}]}})', 'map({L}, {{# > {I} ? # : nil}})']
ATOMS = {'I': ['A', 'B', '3', '0'], 'B': ['P', 'Q', 'true'], 'S': ['S', 'T', '"a"'], 'L': ['Xs', 'Ys', '1..3'], 'F': ['F', '1.5']}
CLOSURE_ATOMS = {'I': ['#', 'A', '2'], 'B': ['Pf(#)', '# > A', 'P'], 'S': ['S', '"a"'], 'L': ['Ys', 'Xs'], 'F': ['F']}


def holes(p):
    out = []
    i = 0
    while i < len(p):
        if p[i] == '{':
            if p[i + 1] == '{':
                i += 2; continue
            out.append((i, p[i + 1]))
            i += 3
        elif p[i] == '}' and i + 1 < len(p) and p[i + 1] == '}':
            i += 2
        else:
            i += 1
    return out


def fill(p, subs):
    """subs: list of replacement strings for the holes of p, in order"""
    out = []
    i = 0; k = 0
    while i < len(p):
        if p[i] == '{':
            if p[i + 1] == '{':
                out.append('{'); i += 2; continue
            out.append(subs[k]); k += 1; i += 3
        elif p[i] == '}' and i + 1 < len(p) and p[i + 1] == '}':
            out.append('}'); i += 2
        else:
            out.append(p[i]); i += 1
    return ''.join(out)


def atoms_for(h, inclosure, rot):
    t = h.upper()
    cl = inclosure or h.islower()
    a = (CLOSURE_ATOMS if cl else ATOMS)[t]
    return a[rot % len(a)]


def depth1(prod, inclosure=False, variants=1):
    hs = holes(prod)
    out = []
    for v in range(variants):
        subs = [atoms_for(h, inclosure, k + v) for k, (_, h) in enumerate(hs)]
        out.append(fill(prod, subs))
    return out


def gen(budget, quick=False):
    """list of template sources. budget 1: every production with atom children (2 atom rotations);
    budget 2: every production with every production of the right type in each child slot (others atoms)."""
    seen = []
    def add(s):
        if s not in seen:
            seen.append(s)
    allp = [(t, p) for t, ps in PRODS.items() for p in ps] + [('X', p) for p in TOP_EXTRA]
    for t, p in allp:
        for s in depth1(p, variants=2):
            add(s)
    for s in RICH:
        add(s)
    if budget >= 2:
        for t, p in allp:
            hs = holes(p)
            for k, (_, h) in enumerate(hs):
                cl = h.islower()
                inner = PRODS[h.upper()]
                if quick:
                    # one representative inner production per slot, rotating through the list
                    step = max(1, len(inner) // 3)
                    inner = inner[(k + len(p)) % step::step]
                for q in inner:
                    for sub in depth1(q, inclosure=cl):
                        subs = [('(' + sub + ')') if j == k else atoms_for(hh, False, j) for j, (_, hh) in enumerate(hs)]
                        add(fill(p, subs))
    if budget >= 3:
        # nested closures and conditionals (the shapes the property names)
        for s in ['map(Xs, {map(Ys, {# + A})})', 'filter(Xs, {any(Ys, {# > A})})', 'map(Xs, {count(Ys, {Qf(#, A)}) + #})',
                  'all(Xs, {any(Ys, {Pf(#)}) or Pf(#)})', 'count(Xs, {one(Ys, {Gn(#, A)})})', 'map(filter(Xs, {Pf(#)}), {Fn(#)})',
                  'P ? (Q ? A : B) : (Q ? B : A)', '(P ? Xs : Ys)[A > 0 ? 0 : 1]', 'any(Xs, {# in Ys}) ? len(filter(Ys, {# in Xs})) : -1',
                  'filter(map(Xs, {# * 2}), {# > A})', 'map(Xs, {P ? # : (Q ? -# : 0)})', 'one(Xs, {none(Ys, {Qf(#, B)})})',
                  'map(Xs, {filter(Ys, {# > A})})', 'len(filter(Xs, {len(filter(Ys, {Pf(#)})) > 0}))',
                  'Fn(A) + Fn(B) * Hf(A)', 'Gn(Fn(A), Hf(B)) and Gn(Hf(A), Fn(B))', 'P or Gn(A, B) ? Fn(A) : Hf(B)',
                  'not (P and Gn(A, B)) or Pf(A)', '[Fn(A), Hf(B), Fn(B)][A]', '{a: Fn(A), b: Hf(B)}.a']:
            add(s)
    return seen


if __name__ == '__main__':
    import sys
    b = int(sys.argv[1]) if len(sys.argv) > 1 else 1
    ts = gen(b, quick=len(sys.argv) > 2)
    for t in ts:
        print(t)
    print(len(ts), file=sys.stderr)


# ---------------------------------------------------------------------------------------------
# C02: sources in which a rewrite can fire, with operands of every static type admitted there
C02_TEMPLATES = [
    # fold: arithmetic on literals, at depth, in typed positions
    '2 + 3', '2 - 3', '2 * 3', '7 / 2', '7 % 3', '2 ** 3', '-2', '+2', '-(2 + 3)', '(2 + 3) * 4', 'A + 2 * 3', '(A + 2) * (3 - 1)',
    '7 / (2 - 2)', '7 % (3 - 3)', 'A / (2 - 2)', 'P ? 7 / 0 : 1', '1 + 2 + 3 + 4', '-(-(2))', '2 * 3 == 6', '7 / 2 * 2 + 7 % 2',
    '"a" + "b"', '"a" + "b" + S', '[1, 2, 3]', '["a", "b"]', '[1, 2, 3][A]', '["a", "b"][A]', '[1, 2, A]', 'len([1, 2, 3])', '[1 + 1, 2]',
    'FnU8(200 + 100)', 'FnU8(256 / 2)', 'FnU8(2 * 3)', 'FnU8(-1)', 'FnU8(7 % 3)', 'FnU8(2 ** 3 > 7 ? 1 : 2)', 'FnF(1 / 2)', 'FnF(7 / 2 * 2)', 'FnF(3)', 'FnF(-3)', 'FnF(2 + 3)', 'FnI64(2 * 3)', 'FnI64(7 / 2)', 'FnI64(1 - 2)',
    'Fn(2 + 3)', 'Fn(7 / 2)', 'Gn(1 + 1, 2 * 2)', 'U8 + 2 * 3', 'F + 1 / 2', 'I64 == 2 + 3', 'F * (7 / 2)', 'U8 == 200 + 100',
    'F + 1 + 2', 'A + 1 + 2', 'U8 + 200 + 100', 'S + "a" + "b"', 'I64 + 1 + 2', 'F - 1 - 2', 'F * 2 * 3', 'A * 2 * 3', '1 + F + 2', '1 + 2 + F',
    # inArray
    'Any in [1, 2, 3]', 'Any not in [1, 2]', 'Any in ["a", "b"]', 'Any in 1..3', 'Any in [1]',
    'A in [1, 2, 3]', 'A not in [1, 2]', 'U8 in [1, 2, 3]', 'I64 in [1, 2]', 'F in [1, 2]', 'S in ["a", "b"]', 'S not in ["a"]', 'nil in [1, 2]', 'Ptr in [1, 2]',
    'P in [1, 2]', 'A in [1, "a"]', 'M.a in [1, 2]', 'Ptr?.V in [1, 2]', 'Fn(A) in [1, 2]', '(A + 1) in [1, 2]', 'A in [1, 1]', 'S in ["a", "a"]', 'Xs[0] in [1, 2]', 'A in []',
    '1 in [1, 2]', '"a" in ["a"]', 'A in [2 - 1, 2]',
    # inRange
    'A in 1..3', 'A not in 1..3', 'U8 in 1..3', 'I64 in 1..3', 'F in 1..3', 'S in 1..3', 'nil in 1..3', 'P in 1..3', 'Ptr?.V in 1..3', 'A in 3..1', 'Fn(A) in 1..3', '(A * 2) in 0..4',
    'M.a in 1..3', 'A in 1..3 and B in 2..4', 'not (A in 1..3)', 'Xs[0] in 1..3', '2 in 1..3', 'A in (1 + 1)..3',
    # constRange
    '1..3', '3..1', 'len(1..3)', '(1..3)[A]', 'map(1..3, {# * A})', '1..3 == [1, 2, 3]', 'A in 1..B', 'filter(1..3, {# > A})', 'len(0..0)', '(0..2)[1:]', 'all(1..3, {# > A})', '(1 + 1)..(2 + 2)',
]

# C18 identities: (lhs, rhs, mode); {C} collection, {p} predicate over #, {f} mapper over #
C18_COLLS = ['Xs', 'A..B', '[A, B, 3]', 'filter(Xs, {Pf(#)})', 'map(Xs, {Hf(#)})', 'Xs[1:]', '1..3']
C18_PREDS = ['Pf(#)', '# > A', 'Qf(#, A)', 'any(Ys, {Qf(#, A)})', 'Pf(#) and # > B', '# in Ys']
C18_MAPS = ['Fn(#)', '# * 2', 'count(Ys, {Qf(#, A)})', '[#, A]']
C18_IDS = [
    ('all({C}, {{{p}}})', 'not any({C}, {{not ({p})}})', 0),
    ('none({C}, {{{p}}})', 'not any({C}, {{{p}}})', 0),
    ('one({C}, {{{p}}})', 'count({C}, {{{p}}}) == 1', 0),
    ('count({C}, {{{p}}})', 'len(filter({C}, {{{p}}}))', 0),
    ('any({C}, {{{p}}})', 'count({C}, {{{p}}}) > 0', 0),
    ('all({C}, {{{p}}})', 'count({C}, {{{p}}}) == len({C})', 0),
    ('filter({C}, {{{p}}})', '', 1),
    ('all(filter({C}, {{{p}}}), {{{p}}})', 'true', 0),
]
C18_MAP_IDS = [
    ('len(map({C}, {{{f}}}))', 'len({C})', 0),
    ('map({C}, {{{f}}})', '', 1),
]
C18_NESTED = [
    'map(Xs, {all(Ys, {Qf(#, 1)})})', 'map(Xs, {none(Ys, {Qf(#, 1)})})', 'map(Xs, {any(Ys, {Qf(#, 1)})})', 'map(Xs, {one(Ys, {Qf(#, 1)})})', 'map(Xs, {count(Ys, {Qf(#, 1)})})',
    'filter(Xs, {none(Ys, {Qf(#, A)})})', 'count(Xs, {all(Ys, {Qf(#, A)})})', 'any(Xs, {none(Ys, {Qf(#, A)})})', 'all(Xs, {any(Ys, {Qf(#, A)})})', 'one(Xs, {all(Ys, {Qf(#, A)})})', 'none(Xs, {one(Ys, {Qf(#, A)})})',
    'any(Xss, {none(#, {# == A})})', 'map(Xss, {count(#, {Pf(#)})})', 'filter(Xss, {all(#, {Pf(#)})})', 'map(Xss, {filter(#, {Pf(#)})})',

    'map(Xs, {map(Ys, {Qf(#, 0)})})', 'filter(Xs, {any(Ys, {Qf(#, 1)})})', 'map(Xs, {count(Ys, {Qf(#, A)}) + #})',
    'map(Xs, {map(Ys, {count(Xs, {Qf(#, 2)})})})', 'count(Xs, {all(Ys, {Qf(#, 3)}) and Pf(#)})', 'map(Xs, {Pf(#) ? map(Ys, {Fn(#)}) : [#]})',
    'map(Xs, {filter(Ys, {Pf(#)})})', 'one(Xs, {one(Ys, {one(Xs, {Qf(#, 4)})})})', 'map(Xs, {[#, any(Ys, {Pf(#)}), #]})',
]


def c18(quick, seed=0):
    out = []
    colls = C18_COLLS[:4] if quick else C18_COLLS
    preds = C18_PREDS[:4] if quick else C18_PREDS
    n = 0
    for l, r, m in C18_IDS:
        for c in colls:
            for p in preds:
                n += 1
                if quick and (n + seed) % 2:
                    continue
                out.append((l.replace('{C}', c).replace('{p}', p).replace('{{', '{').replace('}}', '}'), r.replace('{C}', c).replace('{p}', p).replace('{{', '{').replace('}}', '}'), m))
    for l, r, m in C18_MAP_IDS:
        for c in colls:
            for f in C18_MAPS:
                out.append((l.replace('{C}', c).replace('{f}', f).replace('{{', '{').replace('}}', '}'), r.replace('{C}', c).replace('{f}', f).replace('{{', '{').replace('}}', '}'), m))
    for s in C18_NESTED:
        out.append((s, '', 1))
    for x in ['A', 'A + B', 'Xs[0]', 'Fn(A)']:
        out.append(('%s in 1..3' % x, '(%s) >= 1 and (%s) <= 3' % (x, x), 0))
        out.append(('%s not in 0..2' % x, 'not ((%s) >= 0 and (%s) <= 2)' % (x, x), 0))
        out.append(('%s in B..3' % x, '(%s) >= B and (%s) <= 3' % (x, x), 0))
        out.append(('%s not in 1..B' % x, 'not ((%s) >= 1 and (%s) <= B)' % (x, x), 0))
    for c in colls + ['S', 'map(Xs, {Fn(#)})', 'S + T']:
        out.append((c, '', 2))
    return out


# C04: grammatical seeds, well- and ill-typed, used with every option combination
C04_SOURCES = ['Twice(1, 2)', 'Twice()', 'Fn(1, 2)', 'PtrAdd(1, 2)', 'Ptr.Zap(1)', 'Gn(1)', 'Gn(1, 2, 3)', 'map(Xs, {nil})', 'one(Xs, {nil})', 'map(Xs, {P ? # : nil})', 'A + B', 'A + S', 'Foo', 'A.B', 'Fn()', 'Fn(S)', 'Fn(A)', 'not A', 'len(A)', 'all(A, {#})', 'map(Xs, {#.V})', 'nil', 'nil.V', 'Ptr?.Next?.V', 'Ptr?.V',
               'A ? 1 : 2', '[1, 2][S]', '{a: 1}.b', 'M.zz', 'Xs[1:S]', 'S matches "["', 'S matches T', '1 / 0', 'A % 0', 'Fn', 'Twice', 'Twice(2)', 'Twice(A)', 'Ptr.V.X', 'X + 1',
               'P ? nil : 1', 'nil == nil', 'Xs[A]', 'S[A:B]', 'A in M', '1 in M', 'P and A', 'count(Xs, {#})', 'filter(Xs, {# > A})', '1 + 2', '-nil', 'Ptr.Next.V', 'Add(A, B)', 'A + 1.5',
               '{(A): 1}', '[nil, A][0].V', 'S.x', 'M[A]', 'Xs["a"]', 'Fn(1 + 1.5)', 'P ? Ptr : nil', 'len(nil)', 'nil in nil', '1..A', 'Xs[:]']


C02_CONSTEXPR = ['Pure(2) + A', 'P ? Pure(2) : A', 'Lvl(2)', 'Lvl(2) == Lvl(3)', 'Pure(Pure(1))', 'Pure(1 + 2)', '[Pure(1), Pure(2)][A]', 'Pure(A)', 'Cat("a", "b")', 'Cat("a", "b") + "c"',
                 'Lvl(2).String()', '[Lvl(1)][0]', 'I8(300)', 'I8(1) + A', 'Pure(2) in [Pure(2), 3]', 'P and Pure(3) > A', 'Pure(2) == Pure(2)', 'Lvl(Pure(1))']


# C17: (operator form, explicit call form, overload table)
C17_PAIRS = [
    ('V + W', 'AddVec(V, W)', 0), ('(V + W) + V', 'AddVec(AddVec(V, W), V)', 0), ('V + (W + V)', 'AddVec(V, AddVec(W, V))', 0),
    ('A + B', 'A + B', 0), ('A + B * 2', 'A + B * 2', 0), ('[V + W][0]', '[AddVec(V, W)][0]', 0), ('Xs[0] + V', 'AddVec(Xs[0], V)', 0),
    ('(P ? V : W) + V', 'AddVec(P ? V : W, V)', 0), ('P ? V + W : W', 'P ? AddVec(V, W) : W', 0), ('P ? W : V + W', 'P ? W : AddVec(V, W)', 0),
    ('map(Xs, {# + V})', 'map(Xs, {AddVec(#, V)})', 0), ('map(Xs, {V + #})', 'map(Xs, {AddVec(V, #)})', 0), ('Id(V + W)', 'Id(AddVec(V, W))', 0),
    ('{a: V + W}.a', '{a: AddVec(V, W)}.a', 0), ('(V + W).X', 'AddVec(V, W).X', 0), ('[V + W, V][0:1]', '[AddVec(V, W), V][0:1]', 0), ('[V, W][A + B]', '[V, W][A + B]', 0),
    ('[V + W, W][:1]', '[AddVec(V, W), W][:1]', 0), ('[V, W][A + 0:B + 1]', '[V, W][A + 0:B + 1]', 0), ('Xs[A:B][0] + V', 'AddVec(Xs[A:B][0], V)', 0),
    ('(V + W) == V', 'AddVec(V, W) == V', 0), ('len([V + W])', 'len([AddVec(V, W)])', 0), ('count(Xs, {(# + V).X > A})', 'count(Xs, {AddVec(#, V).X > A})', 0),
    ('filter(Xs, {(# + #).X > 0})', 'filter(Xs, {AddVec(#, #).X > 0})', 0), ('not ((V + W).X > A)', 'not (AddVec(V, W).X > A)', 0), ('(V + W).X + A', 'AddVec(V, W).X + A', 0),
    ('V + W', 'AddVec(V, W)', 1), ('V + A', 'AddMixed(V, A)', 1), ('(V + A) + W', 'AddVec(AddMixed(V, A), W)', 1), ('V + (A + B)', 'AddMixed(V, A + B)', 1), ('A + B', 'A + B', 1),
    ('V + W', 'AddIface(V, W)', 2), ('(V + W) + V', 'AddIface(AddIface(V, W), V)', 2), ('A + B', 'A + B', 2),
    ('V + W', 'Plus(V, W)', 3), ('map(Xs, {# + V})', 'map(Xs, {Plus(#, V)})', 3), ('A + B', 'A + B', 3),
    ('V + W - V', 'SubVec(AddVec(V, W), V)', 4), ('V - W == W + V', 'EqVec(SubVec(V, W), AddVec(W, V))', 4), ('A - B == A + B', 'A - B == A + B', 4), ('V == W', 'EqVec(V, W)', 4),
    ('V + W', 'AddVec(V, W)', 5), ('V + A', 'AddMixed(V, A)', 5),
    ('V + W', 'Plus(V, W)', 6), ('V + A', 'AddMixed(V, A)', 7), ('V + W', 'Plus(V, W)', 7),
    ('Pv == nil', 'Pv == nil', 4), ('nil == Pv', 'nil == Pv', 4), ('Pv == nil', 'Pv == nil', 8), ('Pv == Pv', 'EqPv(Pv, Pv)', 8), ('V == nil', 'V == nil', 4),
    ('Dyn[(V + W).X]', 'Dyn[AddVec(V, W).X]', 0), ('Dyn[A + B]', 'Dyn[A + B]', 0), ('Dyn[(V + A).X]', 'Dyn[AddMixed(V, A).X]', 1),
]


# C03: ill-typed faults (one documented rule each) and the contexts they are placed in
C03_FAULTS = [
    # mismatched operand types
    'A + S', 'S - A', 'P and A', 'A or P', 'not A', '-S', 'A < S', 'S contains A', 'A matches S', 'A..S', 'F % A', 'P + P', 'S * 2', 'Xs + 1', 'A == S', 'P == A', '-P', 'not S', 'S > 1', 'A startsWith S',
    # unknown name, field, method, function
    'Foo', 'Ptr.Zip', 'Ptr.Zip()', 'Zip(A)', 'Ptr.V.W', 'A.x', 'Foo + 1',
    # arity and argument types
    'Fn()', 'Fn(A, B)', 'Fn(S)', 'Gn(A)', 'Fn(P)', 'Twice()', 'Twice(S)', 'Gn(A, S)', 'FnF(S)', 'Pf(Xs)',
    # conditions and predicates
    'A ? 1 : 2', 'S ? A : B', 'filter(Xs, {#})', 'all(Xs, {# + 1})', 'count(Xs, {S})', 'any(Xs, {A})', 'one(Xs, {nil})', 'none(Xs, {"a"})',
    # builtin arguments, indexing, slicing
    'len(A)', 'all(A, {#})', 'map(P, {#})', 'filter(A, {true})', 'count(F, {true})', 'A[0]', 'P[1:2]', 'Xs[S:]', 'Xs[:F]', 'S[P:]', 'A in B', 'A in S', 'len(P)', 'F[0]',
    '#', 'Xs[P]', 'Xs[F]',
]
C03_CONTEXTS = ['{X}', '[{X}]', 'P ? {X} : 0', 'P ? 0 : {X}', 'map(Xs, {{{X}}})', '{{a: {X}}}', '({X}) == nil', 'Xs[A] + A > 0 and ({X}) == nil', 'len([A, {X}])', 'not (({X}) == nil)', '[1, {X}][0:1]', 'Ptr?.V == ({X})']
C03_WELL = ['A + B', 'S + T', 'P and Q', 'not P', '-A', 'A < B', 'S contains T', 'S matches T', 'A..B', 'A % B', 'Ptr.V', 'Fn(A)', 'Gn(A, B)', 'Twice(A)', 'FnF(F)', 'P ? 1 : 2', 'filter(Xs, {# > 1})',
            'all(Xs, {# > 1})', 'len(Xs)', 'len(S)', 'len(M)', 'Xs[0]', 'S[1:2]', 'Xs[A:]', 'A in Xs', 'S in M', 'M[S]', 'A == F', 'Ptr == nil', 'S == T', 'FnU8(1)', 'FnF(1)', 'FnF(1 + 2)', 'FnI64(2 * 3)']
# accepted by the rules but with statically typed operands that cannot work at run time (soundness probes)
C03_SOUND_EXTRA = ['FnF(7 % 2)', 'FnU8(9 % 5)', 'FnF(-(7 % 4))', 'FnI64(9 % 5 * 2)', 'Fn(7 % 2)', 'P ? I64 : nil', 'P ? nil : I64', 'P ? F : nil', 'P ? nil : F', 'Vf(S, A, B)', 'Vf(S)', 'Vv(A, S)', 'Vv()', 'Vf(S, A) == 1', 'A in M', 'M[A]', 'Xs[S]', 'Fn(A + 1.5)', 'Fn(-F)', 'Fn(1 + 1.5)', 'Fn(2 / 1)', 'FnU8(A + 1)', 'FnF(A + 1)', 'FnF(1 + A)', 'FnI64(A * 2)', 'Fn(1.5 + 2)', 'Fn(I64 + 1)', 'S in Xs', 'P in Xs', 'A in Ss', 'S[S]', 'Ptr["V"]', 'Ptr[S]', 'M.a + S',
                   'U8 in Xs', 'F in Xs', 'I64 == A', 'Xs[U8]', 'Xs[I64]', 'Xs[F]', 'M[S] + A', 'Xss[0][A]', 'Ss[A] + S', 'filter(Xs, {# > A})', 'map(Xs, {# * 2})', 'map(Xs, {# > A})', 'filter(Ss, {# == S})', 'map(Ss, {len(#)})',
                   'count(Xs, {# > A}) + 1', 'A..B', '1..3', '[A, B]', '{a: A}', 'P ? A : F', 'P ? A : nil', 'P ? nil : A', 'Ptr?.V', 'Ptr?.Next', 'A ** B', 'A / B', 'U8 + A', 'U8 * U8', 'F + A', 'I64 % A', '-U8', 'len(S) + A']


# C13: (template, mode). '~' = one symbolic whitespace byte, @[ ]@ = the token where the error must be reported
C13_TEMPLATES = [
    ('A~+~@[Foo]@~* 2', 0), ('A~@[+]@~S', 0), ('A + B~@[)]@', 0), ("'é' == S and~@[Zip]@(A)", 0), ('Ptr.V +~Ptr.@[Zap]@', 0), ('[A,~@[S]@ ? 1 : 2]', 0),
    ('Fn(~@[S]@~)', 0), ('all(Xs,~@[{]@# + 1})', 0), ('@[len]@(~A~)', 0), ('Xs[~A~:~@[S]@~]', 0), ('"é" + S +~@[Foo]@', 0), ('{a: 1,~b: @[Foo]@}', 0),
    ('P ?~A :~@[-]@S', 0), ('A~@[not in]@~B', 0), ('1 +~2~@[3]@', 0), ('Ptr.V.@[W]@', 0), ('"éé"~+ "é" ==~@[Foo]@', 0), ('A~*~(B~@[-]@~S)', 0),
    ('map(Xs,~{#~@[+]@~S})', 0), ('Gn(A,~@[S]@)', 0), ('not~(P~@[and]@~A)', 0), ('A > 1 ? "é" :~@[Bar]@', 0), ('@[Twice]@()', 0), ('S~@[matches]@~A', 0),
    ('not~@[inX]@', 0), ('P and not~@[index]@', 0), ('not inX or~@[Foo]@ > 1', 3), ('inX and not~inX or~@[Zip]@(1)', 3),
    ('V~@[+]@~W', 2), ('A < 0 ? V :~V~@[+]@~W', 2), ('(V + W).X +~(V~@[+]@~W).X', 4), ('Xs[0]~@[+]@~V', 2),
    ('A~@[/]@~B', 1), ('A + (A~@[%]@~B)', 1), ('Xs@[[]@~A]', 1), ('Ptr.@[V]@', 1), ("'é' + S == T or~@[Fn]@(B) > 0", 1), ('[1, 2, 3]~@[[]@~A~]', 1),
    ('map(Xs,~{#~@[/]@~B})', 1), ('P ? 1 : A~@[/]@~B', 1), ('S~@[matches]@~T', 1), ('"éé" == S or~A~@[/]@~B > 1', 1), ('Q and~Xs[0] >~Ys@[[]@A]', 1), ('[A, A~@[%]@~B,~1][0]', 1),
]
