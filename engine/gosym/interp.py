# gosym: symbolic interpreter for go/ssa (as dumped by ssa2json) with z3 as deciding step.
# Mixed concrete/symbolic values; path-at-a-time exploration by decision-prefix replay.
import json, sys, time, os, copy
import z3

sys.setrecursionlimit(20000)

# ------------------------------------------------------------------------------------
# exceptions used for control
class GoPanic(Exception):
    def __init__(self, value):
        self.value = value  # interface value (Iface) carried by the panic


class PathEnd(Exception):
    """path stops (assumption false / infeasible / harness finished early)"""
    def __init__(self, why=''):
        self.why = why


class Unsupported(Exception):
    pass


class SymKey(Unsupported):
    pass


class UnwindLimit(Exception):
    pass


# ------------------------------------------------------------------------------------
# values
class Box:
    __slots__ = ('v', 'tid', 'tag')
    def __init__(self, v, tid=None, tag=None):
        self.v = v; self.tid = tid; self.tag = tag


class StructV:
    __slots__ = ('f', 'tid')
    def __init__(self, f, tid):
        self.f = f; self.tid = tid
    def __repr__(self):
        return 'S%s' % (self.f,)


class ArrayV:
    __slots__ = ('a', 'tag', 'ew')
    def __init__(self, a, tag=None, ew=None):
        self.a = a; self.tag = tag; self.ew = ew   # ew: (width, signed) of integer elements when known
    def __repr__(self):
        return 'A%s' % (self.a,)


class Ptr:
    __slots__ = ('base', 'idx')
    def __init__(self, base, idx=None):
        self.base = base; self.idx = idx
    def __eq__(self, o):
        return isinstance(o, Ptr) and self.base is o.base and self.idx == o.idx
    def __hash__(self):
        return hash((id(self.base), self.idx if not z3.is_expr(self.idx) else None))
    def __repr__(self):
        return 'Ptr(%s@%x,%s)' % (type(self.base).__name__, id(self.base) & 0xffff, self.idx)


class SliceV:
    __slots__ = ('arr', 'off', 'len', 'cap')
    def __init__(self, arr, off, ln, cap):
        self.arr = arr; self.off = off; self.len = ln; self.cap = cap
    def __repr__(self):
        if self.arr is None: return 'Slice(nil)'
        try:
            return 'Slice%s' % (self.arr.a[self.off:self.off + self.len],)
        except Exception:
            return 'Slice(sym)'


class MapV:
    __slots__ = ('d', 'ktid', 'vtid', 'tag', 'sym')
    def __init__(self, ktid, vtid):
        self.d = {}  # hashable key -> (key value, value)
        self.sym = []  # entries [key, value] whose key is symbolic (association list)
        self.ktid = ktid; self.vtid = vtid; self.tag = None
    def __repr__(self):
        return 'Map%s' % ({k: v[1] for k, v in self.d.items()},)


class Iface:
    __slots__ = ('tid', 'v')
    def __init__(self, tid, v):
        self.tid = tid; self.v = v
    def __repr__(self):
        return 'I<%s>(%r)' % (self.tid, self.v)


class Closure:
    __slots__ = ('fn', 'binds')
    def __init__(self, fn, binds=()):
        self.fn = fn; self.binds = binds
    def __repr__(self):
        return 'Fn(%s)' % (self.fn if isinstance(self.fn, str) else self.fn.name)


class BoundMethod:
    """callable: method function with receiver pre-bound (reflect MethodByName)"""
    def __init__(self, fn, recv):
        self.fn = fn; self.recv = recv
        self.name = (fn if isinstance(fn, str) else fn.name) + '$rbound'


class SymStr:
    """string with (possibly) symbolic bytes, concrete length"""
    __slots__ = ('b',)
    def __init__(self, b):
        self.b = tuple(b)
    def __len__(self):
        return len(self.b)
    def __repr__(self):
        return 'SymStr(%d)' % len(self.b)


class ChoiceStr:
    """string that is one of a finite list of concrete strings, chosen by a symbolic index (no forking until needed)"""
    __slots__ = ('opts', 'idx')
    def __init__(self, opts, idx):
        self.opts = opts; self.idx = idx
    def __repr__(self):
        return 'ChoiceStr(%s)' % (self.opts,)
    def eq_bytes(self, b):
        cs = [self.idx == i for i, o in enumerate(self.opts) if o == b]
        if not cs: return False
        return z3.Or(cs) if len(cs) > 1 else cs[0]
    def concretize(self, it):
        k = it.concretize(self.idx, list(range(len(self.opts))))
        return self.opts[k]


class MapIter:
    def __init__(self, items):
        self.items = items; self.i = 0


class StrIter:
    def __init__(self, s):
        self.s = s; self.i = 0


class RuntimeErr:
    """payload of a runtime.Error panic value"""
    def __init__(self, msg):
        self.msg = msg
    def __repr__(self):
        return 'RuntimeErr(%s)' % self.msg


RT_ERR_TID = 'runtime.Error'


def is_sym(v):
    return isinstance(v, z3.ExprRef)


# ------------------------------------------------------------------------------------
class Types:
    INTW = {'int': (64, True), 'int8': (8, True), 'int16': (16, True), 'int32': (32, True), 'int64': (64, True),
            'uint': (64, False), 'uint8': (8, False), 'uint16': (16, False), 'uint32': (32, False), 'uint64': (64, False),
            'uintptr': (64, False), 'byte': (8, False), 'rune': (32, True), 'untyped int': (64, True), 'untyped rune': (32, True)}

    def __init__(self, descs):
        self.d = descs
        self.by_str = {}
        for t in descs:
            self.by_str.setdefault(t['str'], t['id'])
        self._under = {}
        self._info = {}

    def under(self, tid):
        r = self._under.get(tid)
        if r is not None:
            return r
        t = self.d[tid]
        while t['kind'] in ('named', 'alias'):
            t = self.d[t['under'] if t['kind'] == 'named' else t['to']]
        self._under[tid] = t
        return t

    def kind(self, tid):
        return self.under(tid)['kind']

    def intinfo(self, tid):
        """(width, signed) for integer types else None"""
        r = self._info.get(tid, 0)
        if r != 0:
            return r
        u = self.under(tid)
        r = None
        if u['kind'] == 'basic':
            r = self.INTW.get(u['name'])
        self._info[tid] = r
        return r

    def basic(self, tid):
        u = self.under(tid)
        return u['name'] if u['kind'] == 'basic' else None

    def str(self, tid):
        if isinstance(tid, int):
            return self.d[tid]['str']
        return str(tid)

    def id_of(self, s):
        r = self.by_str.get(s)
        if r is None:
            alias = {'uint8': 'byte', 'byte': 'uint8', 'int32': 'rune', 'rune': 'int32'}.get(s)
            r = self.by_str.get(alias) if alias else None
            if r is None:
                if s in self.INTW or s in ('bool', 'string', 'float32', 'float64'):
                    r = len(self.d)
                    self.d.append({'id': r, 'str': s, 'kind': 'basic', 'name': s})
                    self.by_str[s] = r
                else:
                    raise KeyError(s)
        return r

    def zero(self, tid):
        u = self.under(tid)
        k = u['kind']
        if k == 'basic':
            n = u['name']
            if n in self.INTW: return 0
            if n in ('bool', 'untyped bool'): return False
            if n in ('string', 'untyped string'): return b''
            if n == 'float64' or n == 'untyped float': return z3.FPVal(0.0, z3.Float64())
            if n == 'float32': return z3.FPVal(0.0, z3.Float32())
            if n in ('untyped nil', 'unsafe.Pointer', 'Pointer'): return None
            raise Unsupported('zero of basic ' + n)
        if k == 'struct':
            return StructV([self.zero(f['type']) for f in u['fields']], tid)
        if k == 'array':
            return ArrayV([self.zero(u['elem']) for _ in range(u['len'])], ew=self.intinfo(u['elem']))
        if k == 'slice':
            return SliceV(None, 0, 0, 0)
        if k == 'tuple':
            return tuple(self.zero(e) for e in u['elems'])
        return None  # pointer, map, chan, interface, signature


def copyval(v):
    """value-copy of aggregates (structs and arrays are values in Go)"""
    if isinstance(v, StructV):
        return StructV([copyval(x) for x in v.f], v.tid)
    if isinstance(v, ArrayV):
        return ArrayV([copyval(x) for x in v.a], ew=getattr(v, 'ew', None))
    return v


def norm(v, w, signed):
    v &= (1 << w) - 1
    if signed and v >> (w - 1):
        v -= 1 << w
    return v


FP_RM = z3.RNE()


def fp_sort(name):
    return z3.Float32() if name == 'float32' else z3.Float64()


# ------------------------------------------------------------------------------------
class Function:
    __slots__ = ('name', 'j', 'blocks', 'nslots', 'nparams', 'nfree', 'recover', 'rtypes', 'decoded', 'sig', 'pkg', 'ptypes')
    def __init__(self, j):
        self.name = j['name']; self.j = j; self.blocks = None
        self.nslots = j['nslots']; self.nparams = j['nparams']; self.nfree = j['nfree']
        self.recover = j.get('recover'); self.rtypes = j['rtypes']; self.decoded = False
        self.sig = j['sig']; self.pkg = j.get('pkg'); self.ptypes = j['ptypes']


class Frame:
    __slots__ = ('fn', 'regs', 'defers', 'panic', 'panicking', 'caller')
    def __init__(self, fn, caller):
        self.fn = fn; self.regs = [None] * fn.nslots; self.defers = []; self.panic = None; self.panicking = False
        self.caller = caller


class Stats:
    def __init__(self):
        self.instrs = 0; self.paths = 0; self.q_sat = 0; self.q_unsat = 0; self.q_unknown = 0; self.solver_s = 0.0
        self.asserts_proved = 0; self.asserts_failed = 0; self.unsupported = {}; self.unwind = 0; self.queries = []
        self.reach = {}; self.assumed_away = 0; self.funcs = set(); self.cuts = {}


class Interp:
    def __init__(self, prog, timeout_ms=60000):
        self.T = Types(prog['types'])
        self.funcs = {n: Function(j) for n, j in prog['funcs'].items()}
        self.externs = prog['externs']
        self.globals_decl = prog['globals']
        self.packages = {p['path']: p for p in prog['packages']}
        self.globals = {}
        self.models = {}      # function name -> python callable(interp, args) -> value
        self.invoke_models = {}  # (dynamic tid str, method) -> callable
        self.intrinsic_prefix = {}
        self.stats = Stats()
        self.solver = z3.Solver()
        self.solver.set('timeout', timeout_ms)
        self.timeout_ms = timeout_ms
        self.path = None
        self.frame = None
        self.max_loop = 200000
        self.trace = False
        self.fresh_n = 0
        self.instr_budget = 5_000_000
        self.max_alloc = 1 << 20
        self.path_instr0 = 0
        self.memo = {}
        self.alloc_cap = None
        self.call_hooks = {}   # fn name -> callable(interp, fn, args) -> (handled, result)
        self.store_hook = None
        self.alloc_log = None
        self.nondet_seen = []
        self.const_cache = {}
        self.record_funcs = True
        self.tid_error = None

    # -------------------------------------------------------------- decoding
    def decode(self, fn):
        if fn.decoded:
            return
        blocks = []
        for b in fn.j['blocks']:
            ins = []
            for i in b['instrs']:
                ins.append(self.decode_instr(i, fn))
            blocks.append((ins, b['succs'], b['preds'], b.get('comment', '')))
        fn.blocks = blocks
        fn.decoded = True

    def decode_operand(self, o):
        if o is None:
            return None
        k = o[0]
        if k == 'r':
            return (0, o[1])
        if k == 'c':
            return (1, self.const(o[1], o[2]))
        if k == 'g':
            return (2, o[1])
        if k == 'f':
            return (1, Closure(self.fnref(o[1])))
        if k == 'b':
            return (1, Closure('builtin:' + o[1]))
        raise Unsupported('operand ' + str(o))

    def fnref(self, name):
        f = self.funcs.get(name)
        return f if f is not None else name

    def const(self, tid, v):
        T = self.T
        u = T.under(tid)
        k = u['kind']
        if v is None:
            return T.zero(tid)
        if isinstance(v, bool):
            return v
        if 's' in v:
            return bytes(v['s'])
        if 'i' in v:
            iv = int(v['i'])
            if k == 'basic':
                n = u['name']
                ii = T.INTW.get(n)
                if ii:
                    return norm(iv, ii[0], ii[1])
                if n in ('float64', 'float32', 'untyped float'):
                    return z3.FPVal(iv, fp_sort(n))
            raise Unsupported('int const of type ' + T.str(tid))
        if 'f' in v:
            bits = int(v['f'])
            if v['w'] == 32:
                return z3.fpBVToFP(z3.BitVecVal(bits, 32), z3.Float32())
            r = z3.simplify(z3.fpBVToFP(z3.BitVecVal(bits, 64), z3.Float64()))
            if k == 'basic' and u['name'] == 'float32':
                return z3.simplify(z3.fpFPToFP(FP_RM, r, z3.Float32()))
            return r
        raise Unsupported('const ' + str(v))

    def decode_instr(self, i, fn):
        op = i['op']
        d = dict(i)
        for key in ('x', 'y', 'm', 'lo', 'hi', 'max', 'fn', 'recv'):
            if key in d:
                d[key] = self.decode_operand(d[key])
        if 'args' in d:
            d['args'] = [self.decode_operand(a) for a in d['args']]
        if 'edges' in d:
            d['edges'] = [self.decode_operand(a) for a in d['edges']]
        if 'results' in d:
            d['results'] = [self.decode_operand(a) for a in d['results']]
        if 'bindings' in d:
            d['bindings'] = [self.decode_operand(a) for a in d['bindings']]
        d['h'] = getattr(self, 'op_' + op, None)
        if d['h'] is None:
            d['h'] = self.op_unsupported
        return d

    # -------------------------------------------------------------- globals / init
    def init_globals(self, pkgs=None):
        self.globals = {}
        if not hasattr(self, 'gdecl'):
            self.gdecl = {g['name']: g for g in self.globals_decl}

    def run_inits(self, pkgs):
        """run package initialisers of the given package paths in dependency order (repo packages only)"""
        done = set()
        def visit(p):
            if p in done or p not in self.packages:
                return
            done.add(p)
            for im in self.packages[p]['imports']:
                visit(im)
            f = self.funcs.get(p + '.init')
            if f is not None:
                self.call(f, [])
        for p in pkgs:
            visit(p)

    # -------------------------------------------------------------- solver / path
    def fresh(self, name, sort):
        self.fresh_n += 1
        return z3.Const('%s!%d' % (name, self.fresh_n), sort)

    def check(self, *assumptions):
        t = time.time()
        r = self.solver.check(*assumptions)
        dt = time.time() - t
        st = self.stats
        st.solver_s += dt
        if r == z3.sat: st.q_sat += 1
        elif r == z3.unsat: st.q_unsat += 1
        else: st.q_unknown += 1
        return r

    def add(self, c):
        self.solver.add(c)
        self.path.pc.append(c)

    def simp_bool(self, c):
        if isinstance(c, bool):
            return c
        c = z3.simplify(c)
        if z3.is_true(c): return True
        if z3.is_false(c): return False
        return c

    def fork(self, alts, label=''):
        """alts: list of z3 Bool / python bool, mutually exclusive and exhaustive. returns index taken."""
        p = self.path
        if p.pos < len(p.prefix):
            k = p.prefix[p.pos]
            p.pos += 1
            c = alts[k]
            if c is not True:
                self.add(c)
            p.taken.append(k)
            return k
        feas = []
        for k, c in enumerate(alts):
            if c is True:
                feas.append(k)
            elif c is False:
                continue
            else:
                r = self.check(c)
                if r == z3.sat:
                    feas.append(k)
                elif r == z3.unknown:
                    feas.append(k)
                    p.unknown_branch = True
        if not feas:
            raise PathEnd('infeasible')
        k0 = feas[0]
        for k in feas[1:]:
            p.pending.append(p.taken + [k])
        p.pos += 1
        p.prefix.append(k0)
        p.taken.append(k0)
        c = alts[k0]
        if c is not True:
            self.add(c)
        return k0

    def branch(self, cond):
        c = self.simp_bool(cond)
        if isinstance(c, bool):
            return c
        return self.fork([c, z3.Not(c)]) == 0

    def choose(self, n, label=''):
        if n == 1:
            return 0
        return self.fork([True] * n, label)

    def concretize(self, v, candidates=None, label=''):
        """make a symbolic int concrete by forking over its feasible values (bounded)"""
        if not is_sym(v):
            return v
        s = z3.simplify(v)
        if z3.is_bv_value(s):
            return s.as_long()
        p = self.path
        if candidates is not None:
            alts = [v == c for c in candidates]
            k = self.fork(alts + [z3.And([v != c for c in candidates])])
            if k == len(candidates):
                raise Unsupported('concretize: value outside candidates')
            return candidates[k]
        # enumerate via models
        vals = []
        if p.pos < len(p.prefix):
            # replay: decision holds the concrete value directly
            k = p.prefix[p.pos]; p.pos += 1; p.taken.append(k)
            self.add(v == k)
            return k
        self.solver.push()
        while len(vals) < 64:
            r = self.check()
            if r != z3.sat:
                break
            m = self.solver.model()
            val = m.eval(v, model_completion=True).as_long()
            vals.append(val)
            self.solver.add(v != val)
        self.solver.pop()
        if len(vals) >= 64:
            raise Unsupported('concretize: too many values')
        if not vals:
            raise PathEnd('infeasible')
        for k in vals[1:]:
            p.pending.append(p.taken + [k])
        p.pos += 1
        p.prefix.append(vals[0]); p.taken.append(vals[0])
        self.add(v == vals[0])
        return vals[0]

    # -------------------------------------------------------------- panics
    def rt_panic(self, msg):
        raise GoPanic(Iface(RT_ERR_TID, RuntimeErr('runtime error: ' + msg)))

    # -------------------------------------------------------------- calls
    def call(self, fn, args, binds=()):
        if isinstance(fn, str):
            return self.call_extern(fn, args)
        h = self.call_hooks.get(fn.name)
        if h is not None:
            handled, res = h(self, fn, args)
            if handled:
                return res
        if fn.j.get('blocks') is None or len(fn.j['blocks']) == 0:
            return self.call_extern(fn.name, args, fn)
        m = self.models.get(fn.name)
        if m is not None:
            return m(self, args)
        if '.vfMemo' in fn.name and all(isinstance(a, (bytes, int, bool)) for a in args):
            # harness functions named vfMemo*: deterministic, concrete-argument set-up work (e.g. compiling a
            # template source) is executed once per job and its result shared by all paths; only used when the
            # call neither forked nor consumed symbolic input
            key = (fn.name, tuple(args))
            hit = self.memo.get(key)
            if hit is not None:
                return hit[0]
            t0, n0 = len(self.path.taken), len(self.path.nondet)
            res = self.call_body(fn, args, binds)
            if len(self.path.taken) == t0 and len(self.path.nondet) == n0:
                self.memo[key] = (res,)
            return res
        return self.call_body(fn, args, binds)

    def call_body(self, fn, args, binds=()):
        if not fn.decoded:
            self.decode(fn)
        if self.record_funcs:
            self.stats.funcs.add(fn.name)
        fr = Frame(fn, self.frame)
        regs = fr.regs
        n = 0
        for a in args:
            regs[n] = a; n += 1
        if len(args) != fn.nparams:
            raise Unsupported('arity mismatch calling %s: %d vs %d' % (fn.name, len(args), fn.nparams))
        for b in binds:
            regs[n] = b; n += 1
        saved = self.frame
        self.frame = fr
        try:
            try:
                return self.exec(fr, 0)
            except GoPanic as p:
                fr.panic = p
                fr.panicking = True
                self.run_defers(fr)
                if fr.panic is not None:
                    raise fr.panic
                fr.panicking = False
                if fn.recover is not None:
                    return self.exec(fr, fn.recover)
                if len(fn.rtypes) == 0: return None
                if len(fn.rtypes) == 1: return self.T.zero(fn.rtypes[0])
                return tuple(self.T.zero(t) for t in fn.rtypes)
        finally:
            self.frame = saved

    def run_defers(self, fr):
        while fr.defers:
            callee, args = fr.defers.pop()
            try:
                self.call_value(callee, args)
            except GoPanic as p2:
                fr.panic = p2
                fr.panicking = True

    def call_value(self, callee, args):
        if callee is None:
            self.rt_panic('invalid memory address or nil pointer dereference')
        if isinstance(callee, Closure):
            f = callee.fn
            if isinstance(f, BoundMethod):
                return self.call_value(Closure(f.fn), [copyval(f.recv)] + list(args))
            if isinstance(f, str):
                if f.startswith('builtin:'):
                    return self.builtin(f[8:], args, None)
                return self.call_extern(f, args)
            return self.call(f, args, callee.binds)
        if callable(callee):
            return callee(self, args)
        raise Unsupported('call of %r' % (callee,))

    def call_extern(self, name, args, fn=None):
        m = self.models.get(name)
        if m is not None:
            return m(self, args)
        base = name.rsplit('.', 1)[-1]
        if base == 'init' or base.startswith('init#'):
            return None  # initialisers of packages that are not encoded (stubbed stdlib)
        if base.startswith('vf'):
            m = self.intrinsic_prefix.get(base)
            if m is not None:
                return m(self, args, self.externs[name])
        raise Unsupported('call to external %s' % name)

    # -------------------------------------------------------------- exec loop
    def exec(self, fr, start):
        fn = fr.fn
        blocks = fn.blocks
        regs = fr.regs
        bi = start
        prev = -1
        visits = {}
        st = self.stats
        while True:
            ins, succs, preds, _ = blocks[bi]
            c = visits.get(bi, 0) + 1
            visits[bi] = c
            if c > self.max_loop:
                raise UnwindLimit('%s block %d' % (fn.name, bi))
            # phis first (parallel)
            n = 0
            if ins and ins[0]['op'] == 'Phi':
                k = preds.index(prev)
                vals = []
                for i in ins:
                    if i['op'] != 'Phi':
                        break
                    vals.append(self.get(regs, i['edges'][k]))
                    n += 1
                for j in range(n):
                    regs[ins[j]['r']] = vals[j]
            nxt = None
            st.instrs += len(ins) - n
            if st.instrs - self.path_instr0 > self.instr_budget:
                raise UnwindLimit('instruction budget')
            for j in range(n, len(ins)):
                i = ins[j]
                if self.trace:
                    print('   ', fn.name.split('/')[-1], bi, i['op'], i.get('pos', ''), file=sys.stderr)
                r = i['h'](i, regs, fr)
                if r is not None:
                    kind, val = r
                    if kind == 0:   # jump to successor index
                        nxt = succs[val]
                    else:           # return
                        return val
            prev = bi
            bi = nxt

    def get(self, regs, o):
        k = o[0]
        if k == 0:
            return regs[o[1]]
        if k == 1:
            return o[1]
        if k == 2:
            b = self.globals.get(o[1])
            if b is None:
                g = self.gdecl[o[1]]
                b = Box(self.T.zero(g['elem']), g['elem'], tag='global:' + g['name'])
                self.globals[o[1]] = b
            return Ptr(b)
        raise Unsupported('operand kind')

    # -------------------------------------------------------------- memory
    def load(self, p):
        if p is None:
            self.rt_panic('invalid memory address or nil pointer dereference')
        base = p.base
        if p.idx is None:
            return copyval(base.v)
        if isinstance(base, StructV):
            return copyval(base.f[p.idx])
        if isinstance(base, ArrayV):
            idx = p.idx
            if is_sym(idx):
                return self.sym_read(base, idx)
            return copyval(base.a[idx])
        h = getattr(base, 'load', None)
        if h is not None:
            return h(self, p.idx)
        raise Unsupported('load from %r' % (p,))

    def store(self, p, v):
        if p is None:
            self.rt_panic('invalid memory address or nil pointer dereference')
        base = p.base
        if self.store_hook is not None:
            self.store_hook(self, p, v)
        v = copyval(v)
        if p.idx is None:
            base.v = v
        elif isinstance(base, StructV):
            base.f[p.idx] = v
        elif isinstance(base, ArrayV):
            idx = p.idx
            if is_sym(idx):
                self.sym_write(base, idx, v)
            else:
                base.a[idx] = v
        else:
            h = getattr(base, 'store', None)
            if h is None:
                raise Unsupported('store to %r' % (p,))
            h(self, p.idx, v)

    def sym_read(self, arr, idx):
        a = arr.a
        if all(isinstance(x, int) or (is_sym(x) and z3.is_bv(x)) for x in a) and a:
            w = arr.ew[0] if getattr(arr, 'ew', None) else None
            for x in a:
                if is_sym(x): w = x.size()
            if w is None:
                # need width: take from idx context; fall back to concretize
                pass
            else:
                r = a[-1] if is_sym(a[-1]) else z3.BitVecVal(a[-1], w)
                for k in range(len(a) - 2, -1, -1):
                    xk = a[k] if is_sym(a[k]) else z3.BitVecVal(a[k], w)
                    r = z3.If(idx == k, xk, r)
                return r
        k = self.concretize(idx, list(range(len(a))))
        return copyval(a[k])

    def sym_write(self, arr, idx, v):
        k = self.concretize(idx, list(range(len(arr.a))))
        arr.a[k] = v

    def addr_of_aggregate(self, p):
        """the mutable aggregate object (StructV/ArrayV) stored at pointer p"""
        if p is None:
            self.rt_panic('invalid memory address or nil pointer dereference')
        base = p.base
        if p.idx is None:
            return base.v
        if isinstance(base, StructV):
            return base.f[p.idx]
        if isinstance(base, ArrayV):
            idx = p.idx
            if is_sym(idx):
                idx = self.concretize(idx, list(range(len(base.a))))
            return base.a[idx]
        h = getattr(base, 'aggregate', None)
        if h is not None:
            return h(self, p.idx)
        raise Unsupported('aggregate at %r' % (p,))

    # -------------------------------------------------------------- instruction handlers
    def op_unsupported(self, i, regs, fr):
        raise Unsupported('instruction ' + i['op'])

    def op_Alloc(self, i, regs, fr):
        elem = self.T.under(i['t'])['elem']
        regs[i['r']] = Ptr(Box(self.T.zero(elem), elem))

    def op_Store(self, i, regs, fr):
        self.store(self.get(regs, i['x']), self.get(regs, i['y']))

    def op_Jump(self, i, regs, fr):
        return (0, 0)

    def op_If(self, i, regs, fr):
        c = self.get(regs, i['x'])
        if c is True: return (0, 0)
        if c is False: return (0, 1)
        return (0, 0 if self.branch(c) else 1)

    def op_Return(self, i, regs, fr):
        rs = i['results']
        if len(rs) == 0:
            return (1, None)
        if len(rs) == 1:
            return (1, self.get(regs, rs[0]))
        return (1, tuple(self.get(regs, r) for r in rs))

    def op_RunDefers(self, i, regs, fr):
        self.run_defers(fr)
        if fr.panic is not None and fr.panicking:
            p = fr.panic
            raise p

    def op_Panic(self, i, regs, fr):
        raise GoPanic(self.get(regs, i['x']))

    def op_Phi(self, i, regs, fr):
        raise Unsupported('phi not at block start')

    def op_Extract(self, i, regs, fr):
        regs[i['r']] = self.get(regs, i['x'])[i['i']]

    def op_FieldAddr(self, i, regs, fr):
        p = self.get(regs, i['x'])
        s = self.addr_of_aggregate(p)
        if not isinstance(s, StructV):
            raise Unsupported('FieldAddr on %r' % (s,))
        regs[i['r']] = Ptr(s, i['i'])

    def op_Field(self, i, regs, fr):
        s = self.get(regs, i['x'])
        regs[i['r']] = copyval(s.f[i['i']])

    def widen_index(self, idx, i):
        # index operands may have any integer type: bring symbolic ones to 64 bits by their own signedness
        if is_sym(idx) and idx.size() != 64:
            ii = self.T.intinfo(i['yt']) if i.get('yt') is not None else None
            if idx.size() < 64:
                idx = z3.SignExt(64 - idx.size(), idx) if (ii and ii[1]) else z3.ZeroExt(64 - idx.size(), idx)
        return idx

    def op_IndexAddr(self, i, regs, fr):
        x = self.get(regs, i['x'])
        idx = self.widen_index(self.get(regs, i['y']), i)
        k = self.T.kind(i['xt'])
        if k == 'slice':
            if x.arr is None or not self.inrange(idx, x.len):
                self.rt_panic('index out of range')
            h = getattr(x.arr, 'index_addr', None)
            if h is not None:
                regs[i['r']] = h(self, x, idx)
                return
            if is_sym(idx) or is_sym(x.off):
                regs[i['r']] = Ptr(x.arr, z3.simplify(x.off + idx))
            else:
                regs[i['r']] = Ptr(x.arr, x.off + idx)
        elif k == 'pointer':  # pointer to array
            arr = self.addr_of_aggregate(x)
            if not self.inrange(idx, len(arr.a)):
                self.rt_panic('index out of range')
            regs[i['r']] = Ptr(arr, idx)
        else:
            raise Unsupported('IndexAddr on ' + k)

    def inrange(self, idx, ln):
        if not is_sym(idx) and not is_sym(ln):
            return 0 <= idx < ln
        idx_ = idx if is_sym(idx) else z3.BitVecVal(idx, 64)
        ln_ = ln if is_sym(ln) else z3.BitVecVal(ln, 64)
        return self.branch(z3.And(idx_ >= 0, idx_ < ln_))

    def op_Index(self, i, regs, fr):
        x = self.get(regs, i['x'])
        idx = self.widen_index(self.get(regs, i['y']), i)
        k = self.T.under(i['xt'])
        if k['kind'] == 'array':
            if not self.inrange(idx, len(x.a)):
                self.rt_panic('index out of range')
            if is_sym(idx):
                regs[i['r']] = self.sym_read(x, idx)
            else:
                regs[i['r']] = copyval(x.a[idx])
        elif k['kind'] == 'basic':  # string
            regs[i['r']] = self.str_index(x, idx)
        else:
            raise Unsupported('Index on ' + k['kind'])

    def str_index(self, s, idx):
        n = len(s)
        if not self.inrange(idx, n):
            self.rt_panic('index out of range')
        if is_sym(idx):
            els = s.b if isinstance(s, SymStr) else list(s)
            r = els[-1] if is_sym(els[-1]) else z3.BitVecVal(els[-1], 8)
            for k in range(n - 2, -1, -1):
                xk = els[k] if is_sym(els[k]) else z3.BitVecVal(els[k], 8)
                r = z3.If(idx == k, xk, r)
            return r
        if isinstance(s, SymStr):
            return s.b[idx]
        return s[idx]

    def op_Lookup(self, i, regs, fr):
        x = self.get(regs, i['x'])
        key = self.get(regs, i['y'])
        u = self.T.under(i['xt'])
        if u['kind'] == 'basic':  # string index
            regs[i['r']] = self.str_index(x, key)
            return
        vt = u['elem']
        if x is None:
            v, ok = self.T.zero(vt), False
        else:
            v, ok = self.map_lookup(x, key, vt)
        regs[i['r']] = (v, ok) if i['commaok'] else v

    def hkey(self, k):
        if isinstance(k, (int, bytes, bool, str)) or k is None:
            return k
        if isinstance(k, Iface):
            return ('I', k.tid, self.hkey(k.v))
        if isinstance(k, StructV):
            return ('S',) + tuple(self.hkey(x) for x in k.f)
        if isinstance(k, Ptr):
            return ('P', id(k.base), k.idx)
        if isinstance(k, ArrayV):
            return ('A',) + tuple(self.hkey(x) for x in k.a)
        if isinstance(k, ChoiceStr):
            raise SymKey('choice string as map key')
        if isinstance(k, SymStr):
            if all(not is_sym(b) for b in k.b):
                return bytes(k.b)
            raise SymKey('symbolic string as map key')
        if is_sym(k):
            s = z3.simplify(k)
            if z3.is_bv_value(s):
                return s.as_long()  # caller should have normalised
            if z3.is_fp_value(s):
                return ('F', str(s))
            raise SymKey('symbolic map key')
        if isinstance(k, Closure) or isinstance(k, MapV) or isinstance(k, SliceV):
            self.rt_panic('hash of unhashable type')
        h = getattr(k, 'hkey', None)
        if h is not None:
            return h()
        raise Unsupported('map key %r' % (k,))

    def key_eq(self, a, b, ktid):
        if self.T.kind(ktid) == 'interface':
            return self.iface_eq(a, b)
        return self.binop('==', a, b, ktid, ktid)

    def map_find(self, m, key):
        """returns ('d', hkey) | ('s', index) | None; forks when the key or stored keys are symbolic"""
        try:
            hk = self.hkey(key)
            conc = True
        except SymKey:
            conc = False
        if conc and not m.sym:
            return ('d', hk) if hk in m.d else None
        if conc and hk in m.d:
            return ('d', hk)
        cands = []
        if not conc:
            for k_, (kk, vv) in m.d.items():
                cands.append((('d', k_), kk))
        for n, (kk, vv) in enumerate(m.sym):
            cands.append((('s', n), kk))
        alts = []
        keep = []
        for where, kk in cands:
            c = self.key_eq(key, kk, m.ktid)
            if c is False:
                continue
            if c is True:
                return where
            alts.append(c); keep.append(where)
        if not alts:
            return None
        k = self.fork(alts + [z3.Not(z3.Or(alts))])
        if k == len(alts):
            return None
        return keep[k]

    def merge_vals(self, conds, vals):
        """ite-merge of values under mutually exclusive conditions; None if the values cannot be merged"""
        v0 = vals[0]
        if all(isinstance(v, bool) for v in vals) or all(isinstance(v, int) and not isinstance(v, bool) for v in vals):
            if all(v == v0 for v in vals): return v0
            if isinstance(v0, bool):
                r = z3.BoolVal(vals[-1])
                for c, v in zip(conds[:-1][::-1], vals[:-1][::-1]): r = z3.If(c, z3.BoolVal(v), r)
            else:
                r = z3.BitVecVal(vals[-1], 64)
                for c, v in zip(conds[:-1][::-1], vals[:-1][::-1]): r = z3.If(c, z3.BitVecVal(v, 64), r)
            r = z3.simplify(r)
            return r
        if all(isinstance(v, StructV) for v in vals) and all(len(v.f) == len(v0.f) for v in vals):
            fs = []
            for k in range(len(v0.f)):
                f = self.merge_vals(conds, [v.f[k] for v in vals])
                if f is None: return None
                fs.append(f)
            return StructV(fs, v0.tid)
        return None

    def map_lookup(self, m, key, vt):
        h = getattr(m, 'lookup', None)
        if h is not None:
            return h(self, key, vt)
        if isinstance(key, ChoiceStr) and not m.sym:
            # lookup with a symbolic choice among concrete strings: merge the results instead of forking
            conds, vals, miss = [], [], []
            for i, o in enumerate(key.opts):
                e = m.d.get(o)
                if e is None: miss.append(key.idx == i)
                else: conds.append(key.idx == i); vals.append(e[1])
            if not vals:
                return self.T.zero(vt), False
            # 64-bit ints only when the declared field types are int: operator tables of the parser
            mv = self.merge_vals(conds, vals)
            if mv is not None:
                ok = True if not miss else self.simp_bool(z3.Not(z3.Or(miss)))
                if ok is True:
                    return copyval(mv), True
                if self.branch(ok):
                    return copyval(mv), True
                return self.T.zero(vt), False
        w = self.map_find(m, key)
        if w is None:
            return self.T.zero(vt), False
        if w[0] == 'd':
            return copyval(m.d[w[1]][1]), True
        return copyval(m.sym[w[1]][1]), True

    def op_MapUpdate(self, i, regs, fr):
        m = self.get(regs, i['m'])
        key = self.get(regs, i['x'])
        v = self.get(regs, i['y'])
        if m is None:
            self.rt_panic('assignment to entry in nil map')
        if self.store_hook is not None:
            self.store_hook(self, Ptr(m, 'mapupdate'), v)
        h = getattr(m, 'update', None)
        if h is not None:
            h(self, key, v); return
        w = self.map_find(m, key)
        if w is not None:
            if w[0] == 'd':
                m.d[w[1]] = (m.d[w[1]][0], copyval(v))
            else:
                m.sym[w[1]] = [m.sym[w[1]][0], copyval(v)]
            return
        try:
            m.d[self.hkey(key)] = (key, copyval(v))
        except SymKey:
            m.sym.append([key, copyval(v)])

    def op_MakeMap(self, i, regs, fr):
        u = self.T.under(i['t'])
        regs[i['r']] = MapV(u['key'], u['elem'])

    def op_MakeSlice(self, i, regs, fr):
        ln = self.get(regs, i['x']); cp = self.get(regs, i['y'])
        elem = self.T.under(i['t'])['elem']
        if is_sym(ln) or is_sym(cp):
            h = self.call_hooks.get('MakeSlice')
            if h is not None:
                regs[i['r']] = h(self, i, ln, cp, elem); return
            # negative or absurd length panics (runtime: len*elemsize > maxAlloc = 2^48); a length the
            # runtime would try to honour but that is beyond the exploration bound ends the path as
            # unsupported (never success); otherwise bounded concretisation
            if self.branch(ln < 0):
                self.rt_panic('makeslice: len out of range')
            if self.alloc_cap is not None:
                cap_, aid = self.alloc_cap
                if self.check(ln > cap_) == z3.sat:
                    self.alloc_violation(aid)
                self.add(ln <= cap_)
                if self.check() != z3.sat:
                    raise PathEnd('allocation above the cap only')
            if self.branch(ln > (1 << 47)):
                self.rt_panic('makeslice: len out of range')
            if self.branch(ln > self.max_alloc):
                raise Unsupported('allocation of more than %d elements' % self.max_alloc)
            ln = self.concretize(ln)
            cp = ln if is_sym(cp) else cp
        if ln < 0 or cp < ln:
            self.rt_panic('makeslice: len out of range')
        if ln > 1 << 24:
            raise Unsupported('MakeSlice too large')
        arr = ArrayV([self.T.zero(elem) for _ in range(cp)], ew=self.T.intinfo(elem))
        if self.alloc_log is not None:
            self.alloc_log.append(('slice', ln, arr))
        regs[i['r']] = SliceV(arr, 0, ln, cp)

    def op_MakeClosure(self, i, regs, fr):
        f = self.get(regs, i['fn'])
        regs[i['r']] = Closure(f.fn, [self.get(regs, b) for b in i['bindings']])

    def op_MakeInterface(self, i, regs, fr):
        v = self.get(regs, i['x'])
        regs[i['r']] = Iface(i['xt'], copyval(v))

    def op_MakeChan(self, i, regs, fr):
        regs[i['r']] = Box(None, tag='chan')

    def op_ChangeInterface(self, i, regs, fr):
        regs[i['r']] = self.get(regs, i['x'])

    def op_ChangeType(self, i, regs, fr):
        v = self.get(regs, i['x'])
        if isinstance(v, StructV):
            v = StructV(v.f, i['t'])
        regs[i['r']] = v

    def implements(self, dyn_tid, iface_tid):
        u = self.T.under(iface_tid)
        need = u['imethods']
        if not need:
            return True
        if not isinstance(dyn_tid, int):
            m = self.special_implements.get(dyn_tid) if hasattr(self, 'special_implements') else None
            if m is not None:
                return all(x['name'] in m for x in need)
            return dyn_tid == RT_ERR_TID and all(x['name'] in ('Error', 'RuntimeError') for x in need)
        ms = self.method_table(dyn_tid)
        for x in need:
            if x['name'] not in ms:
                return False
        return True

    def method_table(self, tid):
        c = self.const_cache.get(('mt', tid))
        if c is None:
            d = self.T.d[tid]
            c = {}
            for m in d.get('methods') or []:
                c[m['name']] = m
            self.const_cache[('mt', tid)] = c
        return c

    def type_identical(self, a, b):
        return a == b

    def op_TypeAssert(self, i, regs, fr):
        x = self.get(regs, i['x'])
        at = i['at']
        T = self.T
        ok = False
        if x is not None:
            if not isinstance(x, Iface):
                raise Unsupported('TypeAssert on non-interface %r' % (x,))
            if T.kind(at) == 'interface':
                ok = self.implements(x.tid, at)
            else:
                ok = self.type_identical(x.tid, at)
        if i['commaok']:
            if ok:
                regs[i['r']] = (x if T.kind(at) == 'interface' else copyval(x.v), True)
            else:
                regs[i['r']] = (T.zero(at), False)
            return
        if not ok:
            if x is None:
                msg = 'interface conversion: interface is nil, not %s' % T.str(at)
            else:
                msg = 'interface conversion: interface {} is %s, not %s' % (T.str(x.tid), T.str(at))
            raise GoPanic(Iface(RT_ERR_TID, RuntimeErr(msg)))
        regs[i['r']] = x if T.kind(at) == 'interface' else copyval(x.v)

    def op_Slice(self, i, regs, fr):
        x = self.get(regs, i['x'])
        lo = self.get(regs, i['lo']) if i['lo'] is not None else None
        hi = self.get(regs, i['hi']) if i['hi'] is not None else None
        mx = self.get(regs, i['max']) if i['max'] is not None else None
        u = self.T.under(i['xt'])
        k = u['kind']
        if k == 'basic':  # string
            n = len(x)
            lo = 0 if lo is None else lo
            hi = n if hi is None else hi
            if is_sym(lo) or is_sym(hi):
                lo_ = lo if is_sym(lo) else z3.BitVecVal(lo, 64)
                hi_ = hi if is_sym(hi) else z3.BitVecVal(hi, 64)
                if not self.branch(z3.And(lo_ >= 0, lo_ <= hi_, hi_ <= n)):
                    self.rt_panic('slice bounds out of range')
                lo = self.concretize(lo, list(range(n + 1))); hi = self.concretize(hi, list(range(n + 1)))
            if not (0 <= lo <= hi <= n):
                self.rt_panic('slice bounds out of range')
            if isinstance(x, SymStr):
                regs[i['r']] = SymStr(x.b[lo:hi])
            else:
                regs[i['r']] = x[lo:hi]
            return
        if k == 'pointer':  # *array
            arr = self.addr_of_aggregate(x)
            base = SliceV(arr, 0, len(arr.a), len(arr.a))
        else:
            base = x
        h = getattr(base.arr, 'slice', None) if base.arr is not None else None
        if h is not None:
            regs[i['r']] = h(self, base, lo, hi, mx); return
        lo = 0 if lo is None else lo
        hi = base.len if hi is None else hi
        mx = base.cap if mx is None else mx
        if is_sym(lo) or is_sym(hi) or is_sym(mx) or is_sym(base.cap):
            def bv(v): return v if is_sym(v) else z3.BitVecVal(v, 64)
            if not self.branch(z3.And(bv(lo) >= 0, bv(lo) <= bv(hi), bv(hi) <= bv(mx), bv(mx) <= bv(base.cap))):
                self.rt_panic('slice bounds out of range')
            lo = self.concretize(lo); hi = self.concretize(hi); mx = self.concretize(mx)
        if not (0 <= lo <= hi <= mx <= base.cap):
            self.rt_panic('slice bounds out of range')
        if base.arr is None:
            regs[i['r']] = SliceV(None, 0, 0, 0); return
        regs[i['r']] = SliceV(base.arr, base.off + lo, hi - lo, mx - lo)

    def op_Range(self, i, regs, fr):
        x = self.get(regs, i['x'])
        u = self.T.under(i['xt'])
        if u['kind'] == 'map':
            items = [] if x is None else self.map_items(x)
            regs[i['r']] = MapIter(items)
        else:
            regs[i['r']] = StrIter(x)

    def map_items(self, m):
        h = getattr(m, 'items', None)
        if h is not None:
            return h(self)
        items = [(kv[0], kv[1]) for kv in m.d.values()] + [(kv[0], kv[1]) for kv in m.sym]
        if self.map_order_hook is not None:
            items = self.map_order_hook(self, m, items)
        return items
    map_order_hook = None

    def op_Next(self, i, regs, fr):
        it = self.get(regs, i['x'])
        if i['isstring']:
            s = it.s
            if it.i >= len(s):
                regs[i['r']] = (False, 0, 0); return
            pos = it.i
            r, w = self.decode_rune(s, pos)
            it.i += w
            regs[i['r']] = (True, pos, r)
            return
        if it.i >= len(it.items):
            regs[i['r']] = (False, None, None); return
        k, v = it.items[it.i]
        it.i += 1
        regs[i['r']] = (True, k, copyval(v))

    def decode_rune(self, s, pos):
        f = self.funcs.get('unicode/utf8.DecodeRuneInString')
        sub = SymStr(s.b[pos:]) if isinstance(s, SymStr) else s[pos:]
        if isinstance(sub, bytes):
            try:
                b0 = sub[0]
                n = 1 if b0 < 0x80 else 2 if 0xc0 <= b0 < 0xe0 else 3 if 0xe0 <= b0 < 0xf0 else 4 if 0xf0 <= b0 < 0xf8 else 0
                ch = sub[:n].decode('utf-8')
                if n and len(ch) == 1:
                    return ord(ch), n
            except Exception:
                pass
            if f is None:
                return 0xFFFD, 1
        if f is None:
            raise Unsupported('range over symbolic string needs unicode/utf8 dumped')
        r = self.call(f, [sub])
        w = r[1]
        if is_sym(w):
            w = self.concretize(w, [1, 2, 3, 4])
        return r[0], w

    def op_Defer(self, i, regs, fr):
        callee, args = self.prepare_call(i, regs)
        fr.defers.append((callee, args))

    def op_Go(self, i, regs, fr):
        raise Unsupported('go statement')

    def op_Send(self, i, regs, fr):
        raise Unsupported('chan send')

    def op_Select(self, i, regs, fr):
        raise Unsupported('select')

    def prepare_call(self, i, regs):
        args = [self.get(regs, a) for a in i['args']]
        if 'invoke' in i:
            recv = self.get(regs, i['recv'])
            if recv is None:
                self.rt_panic('invalid memory address or nil pointer dereference')
            name = i['invoke']
            if not isinstance(recv, Iface):
                raise Unsupported('invoke on %r' % (recv,))
            if not isinstance(recv.tid, int):
                m = self.invoke_models.get((recv.tid, name))
                if m is None:
                    raise Unsupported('invoke %s on %s' % (name, recv.tid))
                return (lambda it, a, m=m, recv=recv: m(it, recv, a)), args
            mt = self.method_table(recv.tid)
            m = mt.get(name)
            if m is None:
                raise Unsupported('method %s not found on %s' % (name, self.T.str(recv.tid)))
            return Closure(self.fnref(m['fn'])), [copyval(recv.v)] + args
        return self.get(regs, i['fn']), args

    def op_Call(self, i, regs, fr):
        callee, args = self.prepare_call(i, regs)
        if isinstance(callee, Closure) and isinstance(callee.fn, str) and callee.fn.startswith('builtin:'):
            r = self.builtin(callee.fn[8:], args, i)
        else:
            r = self.call_value(callee, args)
        if 'r' in i:
            regs[i['r']] = r

    # -------------------------------------------------------------- builtins
    def builtin(self, name, args, i):
        if name == 'len':
            return self.go_len(args[0])
        if name == 'cap':
            x = args[0]
            if isinstance(x, SliceV): return x.cap
            raise Unsupported('cap')
        if name == 'append':
            return self.go_append(args[0], args[1], i)
        if name == 'copy':
            return self.go_copy(args[0], args[1])
        if name == 'recover':
            # frame layout: current frame = deferred function; its caller = panicking frame
            fr = self.frame
            c = fr.caller if fr is not None else None
            if c is not None and c.panicking and c.panic is not None:
                p = c.panic
                c.panic = None
                c.panicking = False
                return p.value
            return None
        if name == 'delete':
            m, k = args
            if m is not None:
                w = self.map_find(m, k)
                if w is not None:
                    if w[0] == 'd': m.d.pop(w[1], None)
                    else: m.sym.pop(w[1])
            return None
        if name == 'panic':
            raise GoPanic(args[0])
        if name in ('print', 'println'):
            return None
        if name == 'close':
            return None
        if name in ('min', 'max'):
            raise Unsupported(name)
        if name == 'ssa:wrapnilchk':
            if args[0] is None:
                self.rt_panic('value method called using nil pointer')
            return args[0]
        raise Unsupported('builtin ' + name)

    def go_len(self, x):
        if isinstance(x, (bytes, SymStr)): return len(x)
        if isinstance(x, ChoiceStr):
            ls = set(len(o) for o in x.opts)
            return ls.pop() if len(ls) == 1 else len(x.concretize(self))
        if isinstance(x, SliceV): return x.len
        if isinstance(x, MapV):
            h = getattr(x, 'length', None)
            return h(self) if h else len(x.d) + len(x.sym)
        if x is None: return 0
        if isinstance(x, ArrayV): return len(x.a)
        if isinstance(x, Ptr):
            return len(self.addr_of_aggregate(x).a)
        h = getattr(x, 'length', None)
        if h is not None:
            return h(self)
        raise Unsupported('len of %r' % (x,))

    def go_append(self, s, t, i):
        # t is a slice (or string for append([]byte, string...))
        if isinstance(t, (bytes, SymStr)):
            els = list(t) if isinstance(t, bytes) else list(t.b)
        elif t.arr is None:
            els = []
        else:
            h = getattr(t.arr, 'elements', None)
            if h is not None:
                els = h(self, t)
            else:
                if is_sym(t.len) or is_sym(t.off):
                    raise Unsupported('append of symbolic-length slice')
                els = [copyval(x) for x in t.arr.a[t.off:t.off + t.len]]
        if s.arr is not None:
            h = getattr(s.arr, 'append', None)
            if h is not None:
                return h(self, s, els)
        if not els:
            return s
        if s.arr is None:
            arr = ArrayV(list(els))
            return SliceV(arr, 0, len(els), len(els))
        if is_sym(s.len) or is_sym(s.cap):
            raise Unsupported('append to symbolic-length slice')
        n = s.len + len(els)
        if n <= s.cap:
            # in place
            for k, e in enumerate(els):
                if self.store_hook is not None:
                    self.store_hook(self, Ptr(s.arr, s.off + s.len + k), e)
                s.arr.a[s.off + s.len + k] = e
            return SliceV(s.arr, s.off, n, s.cap)
        newcap = max(n, 2 * s.cap)
        a = [copyval(x) for x in s.arr.a[s.off:s.off + s.len]] + list(els)
        elem_zero = None
        tid = i['t'] if i is not None and 't' in i else None
        for _ in range(newcap - n):
            a.append(self.T.zero(self.T.under(tid)['elem']) if tid is not None else None)
        return SliceV(ArrayV(a), 0, n, newcap)

    def go_copy(self, dst, src):
        if isinstance(src, (bytes, SymStr)):
            els = list(src) if isinstance(src, bytes) else list(src.b)
        elif src.arr is None:
            els = []
        else:
            els = [copyval(x) for x in src.arr.a[src.off:src.off + src.len]]
        n = min(dst.len, len(els))
        for k in range(n):
            if self.store_hook is not None:
                self.store_hook(self, Ptr(dst.arr, dst.off + k), els[k])
            dst.arr.a[dst.off + k] = els[k]
        return n

    # -------------------------------------------------------------- arithmetic
    def op_UnOp(self, i, regs, fr):
        tok = i['tok']
        x = self.get(regs, i['x'])
        if tok == '*':
            regs[i['r']] = self.load(x); return
        if tok == '!':
            regs[i['r']] = (not x) if isinstance(x, bool) else self.simp_bool(z3.Not(x)); return
        if tok == '-':
            ii = self.T.intinfo(i['xt'])
            if ii:
                if is_sym(x): regs[i['r']] = -x
                else: regs[i['r']] = norm(-x, ii[0], ii[1])
            else:
                regs[i['r']] = z3.simplify(z3.fpNeg(x))
            return
        if tok == '^':
            ii = self.T.intinfo(i['xt'])
            if is_sym(x): regs[i['r']] = ~x
            else: regs[i['r']] = norm(~x, ii[0], ii[1])
            return
        if tok == '<-':
            raise Unsupported('chan receive')
        raise Unsupported('unop ' + tok)

    def op_BinOp(self, i, regs, fr):
        regs[i['r']] = self.binop(i['tok'], self.get(regs, i['x']), self.get(regs, i['y']), i['xt'], i['yt'])

    def binop(self, tok, x, y, xt, yt):
        T = self.T
        u = T.under(xt)
        k = u['kind']
        if k == 'basic':
            n = u['name']
            ii = T.INTW.get(n)
            if ii is not None:
                return self.int_binop(tok, x, y, ii[0], ii[1], yt)
            if n in ('bool', 'untyped bool'):
                return self.bool_binop(tok, x, y)
            if n in ('string', 'untyped string'):
                return self.str_binop(tok, x, y)
            if n in ('float64', 'float32', 'untyped float'):
                return self.fp_binop(tok, x, y)
            if n == 'untyped nil':
                eq = True
                return eq if tok == '==' else not eq
            raise Unsupported('binop on basic ' + n)
        if tok in ('==', '!='):
            eq = self.equal_values(x, y, xt, yt)
            if tok == '==':
                return eq
            return (not eq) if isinstance(eq, bool) else self.simp_bool(z3.Not(eq))
        raise Unsupported('binop %s on %s' % (tok, k))

    def int_binop(self, tok, x, y, w, signed, yt=None):
        sx, sy = is_sym(x), is_sym(y)
        if not sx and not sy:
            if tok == '+': return norm(x + y, w, signed)
            if tok == '-': return norm(x - y, w, signed)
            if tok == '*': return norm(x * y, w, signed)
            if tok == '/':
                if y == 0: self.rt_panic('integer divide by zero')
                q = abs(x) // abs(y)
                if (x < 0) != (y < 0): q = -q
                return norm(q, w, signed)
            if tok == '%':
                if y == 0: self.rt_panic('integer divide by zero')
                r = abs(x) % abs(y)
                if x < 0: r = -r
                return norm(r, w, signed)
            if tok == '==': return x == y
            if tok == '!=': return x != y
            if tok == '<': return x < y
            if tok == '<=': return x <= y
            if tok == '>': return x > y
            if tok == '>=': return x >= y
            if tok == '&': return norm(x & y, w, signed)
            if tok == '|': return norm(x | y, w, signed)
            if tok == '^': return norm(x ^ y, w, signed)
            if tok == '&^': return norm(x & ~y, w, signed)
            if tok == '<<':
                if y < 0: self.rt_panic('negative shift amount')
                return norm(x << min(y, 128), w, signed)
            if tok == '>>':
                if y < 0: self.rt_panic('negative shift amount')
                return norm(x >> min(y, 128), w, signed)
            raise Unsupported('int binop ' + tok)
        if tok in ('<<', '>>'):
            # shift count may have another width
            yi = self.T.intinfo(yt) if yt is not None else (w, False)
            xs = x if sx else z3.BitVecVal(x, w)
            if sy:
                yw = y.size()
                if yi[1]:
                    if self.branch(y < 0): self.rt_panic('negative shift amount')
                if yw < w: ys = z3.ZeroExt(w - yw, y)
                elif yw > w:
                    # saturate: if any high bit set, result is 0 / sign fill
                    big = z3.UGE(y, z3.BitVecVal(w, yw))
                    ys = z3.If(big, z3.BitVecVal(w, w), z3.Extract(w - 1, 0, y))
                else: ys = y
                ys = z3.If(z3.UGE(ys, z3.BitVecVal(w, w)), z3.BitVecVal(w, w), ys) if yw <= w else ys
            else:
                if y < 0: self.rt_panic('negative shift amount')
                ys = z3.BitVecVal(min(y, w), w)
            if tok == '<<':
                return z3.simplify(z3.If(z3.UGE(ys, w), z3.BitVecVal(0, w), xs << ys))
            if signed:
                return z3.simplify(z3.If(z3.UGE(ys, w), xs >> (w - 1), xs >> ys))
            return z3.simplify(z3.If(z3.UGE(ys, w), z3.BitVecVal(0, w), z3.LShR(xs, ys)))
        xs = x if sx else z3.BitVecVal(x, w)
        ys = y if sy else z3.BitVecVal(y, w)
        if tok == '+': return xs + ys
        if tok == '-': return xs - ys
        if tok == '*': return xs * ys
        if tok in ('/', '%'):
            if self.branch(ys == 0):
                self.rt_panic('integer divide by zero')
            if tok == '/':
                return (xs / ys) if signed else z3.UDiv(xs, ys)
            return z3.SRem(xs, ys) if signed else z3.URem(xs, ys)
        if tok == '==': return self.simp_bool(xs == ys)
        if tok == '!=': return self.simp_bool(xs != ys)
        if signed:
            if tok == '<': return self.simp_bool(xs < ys)
            if tok == '<=': return self.simp_bool(xs <= ys)
            if tok == '>': return self.simp_bool(xs > ys)
            if tok == '>=': return self.simp_bool(xs >= ys)
        else:
            if tok == '<': return self.simp_bool(z3.ULT(xs, ys))
            if tok == '<=': return self.simp_bool(z3.ULE(xs, ys))
            if tok == '>': return self.simp_bool(z3.UGT(xs, ys))
            if tok == '>=': return self.simp_bool(z3.UGE(xs, ys))
        if tok == '&': return xs & ys
        if tok == '|': return xs | ys
        if tok == '^': return xs ^ ys
        if tok == '&^': return xs & ~ys
        raise Unsupported('int binop ' + tok)

    def bool_binop(self, tok, x, y):
        if isinstance(x, bool) and isinstance(y, bool):
            if tok == '==': return x == y
            if tok == '!=': return x != y
        xs = x if is_sym(x) else z3.BoolVal(x)
        ys = y if is_sym(y) else z3.BoolVal(y)
        if tok == '==': return self.simp_bool(xs == ys)
        if tok == '!=': return self.simp_bool(xs != ys)
        raise Unsupported('bool binop ' + tok)

    def str_els(self, s):
        return list(s) if isinstance(s, bytes) else list(s.b)

    def str_binop(self, tok, x, y):
        if isinstance(x, bytes) and isinstance(y, bytes):
            if tok == '+': return x + y
            if tok == '==': return x == y
            if tok == '!=': return x != y
            if tok == '<': return x < y
            if tok == '<=': return x <= y
            if tok == '>': return x > y
            if tok == '>=': return x >= y
        if (isinstance(x, ChoiceStr) or isinstance(y, ChoiceStr)) and tok not in ('==', '!='):
            x = x.concretize(self) if isinstance(x, ChoiceStr) else x
            y = y.concretize(self) if isinstance(y, ChoiceStr) else y
            return self.str_binop(tok, x, y)
        if tok == '+':
            return self.mkstr(self.str_els(x) + self.str_els(y))
        if tok in ('==', '!='):
            eq = self.str_eq(x, y)
            if tok == '==': return eq
            return (not eq) if isinstance(eq, bool) else self.simp_bool(z3.Not(eq))
        h = getattr(x, 'binop', None) or getattr(y, 'binop', None)
        if h is not None:
            return h(self, tok, x, y)
        raise Unsupported('string binop %s on symbolic strings' % tok)

    def mkstr(self, els):
        if all(not is_sym(e) for e in els):
            return bytes(els)
        return SymStr(els)

    def str_eq(self, x, y):
        if isinstance(x, ChoiceStr) or isinstance(y, ChoiceStr):
            if isinstance(y, ChoiceStr) and not isinstance(x, ChoiceStr):
                x, y = y, x
            if isinstance(y, bytes):
                c = x.eq_bytes(y)
                return c if isinstance(c, bool) else self.simp_bool(c)
            if isinstance(y, ChoiceStr):
                if x is y or (x.opts == y.opts and x.idx.eq(y.idx)): return True
                cs = [z3.And(x.idx == i, y.idx == j) for i, a in enumerate(x.opts) for j, b in enumerate(y.opts) if a == b]
                return self.simp_bool(z3.Or(cs)) if cs else False
            return self.str_eq(x.concretize(self), y)
        h = getattr(x, 'streq', None) or getattr(y, 'streq', None)
        if h is not None and not isinstance(x, (bytes, SymStr)) or not isinstance(y, (bytes, SymStr)):
            return h(self, x, y)
        if len(x) != len(y):
            return False
        xs, ys = self.str_els(x), self.str_els(y)
        cs = []
        for a, b in zip(xs, ys):
            if not is_sym(a) and not is_sym(b):
                if a != b: return False
            else:
                cs.append((a if is_sym(a) else z3.BitVecVal(a, 8)) == (b if is_sym(b) else z3.BitVecVal(b, 8)))
        if not cs: return True
        return self.simp_bool(z3.And(cs))

    def fp_binop(self, tok, x, y):
        if tok == '+': r = z3.fpAdd(FP_RM, x, y)
        elif tok == '-': r = z3.fpSub(FP_RM, x, y)
        elif tok == '*': r = z3.fpMul(FP_RM, x, y)
        elif tok == '/': r = z3.fpDiv(FP_RM, x, y)
        elif tok == '==':
            if x.eq(y): return self.simp_bool(z3.Not(z3.fpIsNaN(x)))   # t == t  <=>  t is not NaN
            return self.simp_bool(z3.fpEQ(x, y))
        elif tok == '!=':
            if x.eq(y): return self.simp_bool(z3.fpIsNaN(x))
            return self.simp_bool(z3.Not(z3.fpEQ(x, y)))
        elif tok == '<': return self.simp_bool(z3.fpLT(x, y))
        elif tok == '<=': return self.simp_bool(z3.fpLEQ(x, y))
        elif tok == '>': return self.simp_bool(z3.fpGT(x, y))
        elif tok == '>=': return self.simp_bool(z3.fpGEQ(x, y))
        else: raise Unsupported('fp binop ' + tok)
        return z3.simplify(r)

    def equal_values(self, x, y, xt, yt):
        """== on non-basic typed operands: pointers, interfaces, structs, funcs(nil), maps(nil), slices(nil), chans"""
        T = self.T
        k = T.kind(xt)
        if k == 'interface':
            # either side may be a concrete-typed value when comparing iface with non-iface (ssa inserts MakeInterface, so both ifaces)
            return self.iface_eq(x, y)
        if k == 'pointer' or k == 'chan':
            if x is None or y is None:
                return x is None and y is None
            return x == y
        if k in ('slice', 'map', 'signature'):
            # only comparison with nil is legal
            def isnil(v):
                if isinstance(v, SliceV): return v.arr is None
                return v is None
            return isnil(x) and isnil(y) if (isnil(x) or isnil(y)) else False
        if k == 'struct':
            cs = []
            fs = T.under(xt)['fields']
            for a, b, f in zip(x.f, y.f, fs):
                e = self.binop('==', a, b, f['type'], f['type'])
                if e is False: return False
                if e is not True: cs.append(e)
            return True if not cs else self.simp_bool(z3.And(cs))
        if k == 'array':
            cs = []
            et = T.under(xt)['elem']
            for a, b in zip(x.a, y.a):
                e = self.binop('==', a, b, et, et)
                if e is False: return False
                if e is not True: cs.append(e)
            return True if not cs else self.simp_bool(z3.And(cs))
        raise Unsupported('== on ' + k)

    def iface_eq(self, x, y):
        if x is None or y is None:
            return x is None and y is None
        if x.tid != y.tid:
            return False
        if not isinstance(x.tid, int):
            h = self.special_eq.get(x.tid) if hasattr(self, 'special_eq') else None
            if h is not None:
                return h(self, x.v, y.v)
            return x.v is y.v
        k = self.T.kind(x.tid)
        if k in ('slice', 'map', 'signature'):
            self.rt_panic('comparing uncomparable type ' + self.T.str(x.tid))
        return self.binop('==', x.v, y.v, x.tid, y.tid)

    # -------------------------------------------------------------- conversions
    def op_Convert(self, i, regs, fr):
        regs[i['r']] = self.convert(self.get(regs, i['x']), i['xt'], i['t'])

    def convert(self, x, st, dt):
        T = self.T
        su, du = T.under(st), T.under(dt)
        sk, dk = su['kind'], du['kind']
        if sk == 'basic' and dk == 'basic':
            sn, dn = su['name'], du['name']
            si, di = T.INTW.get(sn), T.INTW.get(dn)
            if si and di:
                return self.int_conv(x, si, di)
            sf = sn in ('float32', 'float64', 'untyped float')
            df = dn in ('float32', 'float64', 'untyped float')
            if si and df:
                xs = x if is_sym(x) else z3.BitVecVal(x, si[0])
                # canonical form: extend to 64 bits by the source signedness first (the value is the same), so that
                # int8->float64 and int8->int64->float64 are the same term and need no floating-point reasoning
                if si[0] < 64:
                    xs = z3.SignExt(64 - si[0], xs) if si[1] else z3.ZeroExt(64 - si[0], xs)
                r = z3.fpSignedToFP(FP_RM, xs, fp_sort(dn)) if (si[1] or si[0] < 64) else z3.fpUnsignedToFP(FP_RM, xs, fp_sort(dn))
                return z3.simplify(r)
            if sf and di:
                h = self.call_hooks.get('fp2int')
                if h is not None:
                    h(self, x, di)
                r = z3.fpToSBV(z3.RTZ(), x, z3.BitVecSort(di[0])) if di[1] else z3.fpToUBV(z3.RTZ(), x, z3.BitVecSort(di[0]))
                r = z3.simplify(r)
                if z3.is_bv_value(r):
                    return norm(r.as_long(), di[0], di[1])
                return r
            if sf and df:
                if x.sort() == fp_sort(dn):
                    return x
                return z3.simplify(z3.fpFPToFP(FP_RM, x, fp_sort(dn)))
            if si and dn in ('string', 'untyped string'):
                if is_sym(x):
                    return self.mkstr(self.encode_rune(x))
                try:
                    return chr(x).encode('utf-8')
                except Exception:
                    return b'\xef\xbf\xbd'
            if sn in ('string', 'untyped string') and dn in ('string', 'untyped string'):
                return x
            if sn == 'unsafe.Pointer' or dn == 'unsafe.Pointer':
                return x
            raise Unsupported('convert %s -> %s' % (sn, dn))
        if sk == 'slice' and dk == 'basic':  # []byte / []rune -> string
            els = [] if x.arr is None else x.arr.a[x.off:x.off + x.len]
            if T.basic(su['elem']) in ('uint8', 'byte'):
                return self.mkstr(list(els))
            out = []
            for r in els:
                out.extend(self.encode_rune(r))
            return self.mkstr(out)
        if sk == 'basic' and dk == 'slice':  # string -> []byte / []rune
            if T.basic(du['elem']) in ('uint8', 'byte'):
                els = self.str_els(x)
                return SliceV(ArrayV(els), 0, len(els), len(els))
            # []rune
            els = []
            pos = 0
            while pos < len(x):
                r, w = self.decode_rune(x, pos)
                els.append(r); pos += w
            return SliceV(ArrayV(els), 0, len(els), len(els))
        if sk == dk:
            return x
        raise Unsupported('convert %s -> %s' % (T.str(st), T.str(dt)))

    def encode_rune(self, r):
        """UTF-8 bytes of a (possibly symbolic) rune; forks on the encoding length"""
        if not is_sym(r):
            try:
                if 0xd800 <= r < 0xe000: raise ValueError
                return list(chr(r).encode('utf-8'))
            except Exception:
                return [0xef, 0xbf, 0xbd]
        w = r.size()
        def ex(hi, lo): return z3.Extract(hi, lo, r)
        k = self.fork([z3.And(r >= 0, r < 0x80), z3.And(r >= 0x80, r < 0x800),
                       z3.And(r >= 0x800, r < 0x10000, z3.Or(r < 0xd800, r >= 0xe000)), z3.And(r >= 0x10000, r <= 0x10ffff),
                       z3.Or(r < 0, r > 0x10ffff, z3.And(r >= 0xd800, r < 0xe000))])
        if k == 0: return [z3.simplify(ex(7, 0))]
        if k == 1: return [z3.simplify(z3.BitVecVal(0xc0, 8) | z3.ZeroExt(3, ex(10, 6))), z3.simplify(z3.BitVecVal(0x80, 8) | z3.ZeroExt(2, ex(5, 0)))]
        if k == 2: return [z3.simplify(z3.BitVecVal(0xe0, 8) | z3.ZeroExt(4, ex(15, 12))), z3.simplify(z3.BitVecVal(0x80, 8) | z3.ZeroExt(2, ex(11, 6))), z3.simplify(z3.BitVecVal(0x80, 8) | z3.ZeroExt(2, ex(5, 0)))]
        if k == 3: return [z3.simplify(z3.BitVecVal(0xf0, 8) | z3.ZeroExt(5, ex(20, 18))), z3.simplify(z3.BitVecVal(0x80, 8) | z3.ZeroExt(2, ex(17, 12))), z3.simplify(z3.BitVecVal(0x80, 8) | z3.ZeroExt(2, ex(11, 6))), z3.simplify(z3.BitVecVal(0x80, 8) | z3.ZeroExt(2, ex(5, 0)))]
        return [0xef, 0xbf, 0xbd]

    def int_conv(self, x, si, di):
        sw, ss = si
        dw, ds = di
        if not is_sym(x):
            return norm(x, dw, ds)
        if dw == sw: return x
        if dw < sw: return z3.Extract(dw - 1, 0, x)
        return z3.SignExt(dw - sw, x) if ss else z3.ZeroExt(dw - sw, x)


class Path:
    def __init__(self, prefix, pending):
        self.prefix = list(prefix); self.pos = 0; self.taken = []; self.pending = pending; self.pc = []
        self.unknown_branch = False
        self.nondet = []   # (fn, name, value-term) in call order
        self.events = []
        self.reached = []
