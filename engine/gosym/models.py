# Models (trusted stubs) of standard-library functions the encoded code calls:
# reflect (executable model over interpreter values), fmt, strings, strconv, regexp, math, unicode.
import math, struct, re
import z3
from interp import *

K = dict(Invalid=0, Bool=1, Int=2, Int8=3, Int16=4, Int32=5, Int64=6, Uint=7, Uint8=8, Uint16=9, Uint32=10, Uint64=11,
         Uintptr=12, Float32=13, Float64=14, Complex64=15, Complex128=16, Array=17, Chan=18, Func=19, Interface=20,
         Map=21, Ptr=22, Slice=23, String=24, Struct=25, UnsafePointer=26)
KNAME = {v: k for k, v in K.items()}
BASIC_KIND = {'bool': 1, 'int': 2, 'int8': 3, 'int16': 4, 'int32': 5, 'int64': 6, 'uint': 7, 'uint8': 8, 'uint16': 9, 'uint32': 10,
              'uint64': 11, 'uintptr': 12, 'float32': 13, 'float64': 14, 'string': 24, 'byte': 8, 'rune': 5, 'unsafe.Pointer': 26,
              'complex64': 15, 'complex128': 16}
RTYPE = '*reflect.rtype'
ERR_TID = '*errors.errorString'


class RVal:
    """model of reflect.Value: static type tid, payload, read-only flag, optional address (Ptr) for addressable values"""
    __slots__ = ('tid', 'v', 'ro', 'addr')
    def __init__(self, tid, v, ro=False, addr=None):
        self.tid = tid; self.v = v; self.ro = ro; self.addr = addr
    def __repr__(self):
        return 'RVal(%s,%r)' % (self.tid, self.v)


class TypeRef:
    __slots__ = ('tid',)
    def __init__(self, tid): self.tid = tid
    def __repr__(self): return 'Type#%s' % self.tid
    def hkey(self): return ('T', self.tid)


class ErrV:
    def __init__(self, msg): self.msg = msg
    def __repr__(self): return 'Err(%r)' % (self.msg,)


class Opaque:
    """opaque handle (regexp etc.)"""
    def __init__(self, kind, data): self.kind = kind; self.data = data
    def __repr__(self): return 'Opaque(%s,%r)' % (self.kind, self.data)


def install(it):
    T = it.T
    it.rtypes = {}
    it.special_implements = {ERR_TID: {'Error'}, RT_ERR_TID: {'Error', 'RuntimeError'}, RTYPE: None}
    it.special_eq = {RTYPE: lambda it, a, b: a is b}
    it.dyn_types = {}
    M = it.models
    IM = it.invoke_models

    # ------------------------------------------------------------------ type helpers
    def rtype(tid):
        if tid is None:
            return None
        r = it.rtypes.get(tid)
        if r is None:
            r = Iface(RTYPE, TypeRef(tid)); it.rtypes[tid] = r
        return r
    it.rtype = rtype

    def tid_of(rt):
        if rt is None:
            it.rt_panic('invalid memory address or nil pointer dereference')
        return rt.v.tid

    def kind_of(tid):
        if tid is None: return 0
        u = T.under(tid)
        k = u['kind']
        if k == 'basic': return BASIC_KIND.get(u['name'], 0)
        return {'pointer': 22, 'slice': 23, 'array': 17, 'map': 21, 'struct': 25, 'interface': 20, 'signature': 19, 'chan': 18}[k]
    it.kind_of = kind_of

    def new_type(desc, key):
        tid = it.dyn_types.get(key)
        if tid is not None: return tid
        # search existing
        for t in T.d:
            if t['kind'] == desc['kind'] and all(t.get(k) == v for k, v in desc.items() if k not in ('str',)):
                it.dyn_types[key] = t['id']; return t['id']
        desc = dict(desc); desc['id'] = len(T.d)
        T.d.append(desc)
        it.dyn_types[key] = desc['id']
        return desc['id']

    def slice_of(elem):
        return new_type({'kind': 'slice', 'elem': elem, 'str': '[]' + T.str(elem)}, ('slice', elem))
    it.slice_of = slice_of

    def ptr_to(elem):
        d = T.d[elem]
        if d['kind'] == 'named': return d['ptr']
        return new_type({'kind': 'pointer', 'elem': elem, 'str': '*' + T.str(elem), 'methods': []}, ('ptr', elem))
    it.ptr_to = ptr_to

    def func_of(params, results, variadic):
        s = 'func(%s)' % ', '.join(T.str(p) for p in params)
        if len(results) == 1: s += ' ' + T.str(results[0])
        elif results: s += ' (%s)' % ', '.join(T.str(p) for p in results)
        return new_type({'kind': 'signature', 'params': list(params), 'results': list(results), 'variadic': variadic, 'str': s},
                        ('func', tuple(params), tuple(results), variadic))
    it.func_of = func_of

    def exported_methods(tid):
        d = T.d[tid]
        if T.kind(tid) == 'interface':
            return sorted([m for m in T.under(tid)['imethods'] if m['exported']], key=lambda m: m['name'])
        return sorted([m for m in (d.get('methods') or []) if m['exported']], key=lambda m: m['name'])

    def implements(t, iface):
        need = T.under(iface)['imethods']
        if T.kind(t) == 'interface':
            have = {m['name']: m['sig'] for m in T.under(t)['imethods']}
        else:
            have = {m['name']: m['sig'] for m in (T.d[t].get('methods') or [])}
        for m in need:
            if m['name'] not in have: return False
            if have[m['name']] != m['sig']: return False
        return True

    def assignable(t, u):
        if t == u: return True
        if T.kind(u) == 'interface':
            return implements(t, u)
        dt, du = T.d[t], T.d[u]
        if (dt['kind'] != 'named' or du['kind'] != 'named') and T.under(t)['id'] == T.under(u)['id']:
            return True
        return False
    it.assignable = assignable

    # ------------------------------------------------------------------ reflect.Type methods
    def tm(name):
        def deco(f):
            IM[(RTYPE, name)] = lambda it_, recv, args: f(recv.v.tid, *args)
            return f
        return deco

    @tm('Kind')
    def _(t): return kind_of(t)
    @tm('Elem')
    def _(t):
        u = T.under(t)
        if u['kind'] in ('pointer', 'slice', 'array', 'map', 'chan'): return rtype(u['elem'])
        raise GoPanic(Iface(T.id_of('string'), b'reflect: Elem of invalid type ' + T.str(t).encode()))
    @tm('Key')
    def _(t):
        u = T.under(t)
        if u['kind'] != 'map': raise GoPanic(Iface(T.id_of('string'), b'reflect: Key of non-map type'))
        return rtype(u['key'])
    @tm('NumField')
    def _(t):
        u = T.under(t)
        if u['kind'] != 'struct': raise GoPanic(Iface(T.id_of('string'), b'reflect: NumField of non-struct type ' + T.str(t).encode()))
        return len(u['fields'])
    def struct_field(t, i, index=None):
        u = T.under(t)
        f = u['fields'][i]
        sf_tid = T.id_of('reflect.StructField')
        # Name, PkgPath, Type, Tag, Offset, Index, Anonymous
        idx = SliceV(ArrayV(list(index if index is not None else [i])), 0, len(index) if index else 1, len(index) if index else 1)
        return StructV([f['name'].encode(), b'' if f['exported'] else f['pkg'].encode(), rtype(f['type']), b'', 0, idx, f['embedded']], sf_tid)
    @tm('Field')
    def _(t, i):
        u = T.under(t)
        if u['kind'] != 'struct': raise GoPanic(Iface(T.id_of('string'), b'reflect: Field of non-struct type'))
        if is_sym(i): i = it.concretize(i, list(range(len(u['fields']))))
        if not 0 <= i < len(u['fields']): raise GoPanic(Iface(T.id_of('string'), b'reflect: Field index out of bounds'))
        return struct_field(t, i)
    @tm('FieldByName')
    def _(t, name):
        r = field_by_name_type(t, name)
        if r is None:
            return (T.zero(T.id_of('reflect.StructField')), False)
        path, ft = r
        owner = t
        for k in path[:-1]:
            owner = T.under(owner)['fields'][k]['type']
            if T.kind(owner) == 'pointer': owner = T.under(owner)['elem']
        return (struct_field(owner, path[-1], path), True)
    @tm('NumIn')
    def _(t): return len(sig(t)['params'])
    @tm('NumOut')
    def _(t): return len(sig(t)['results'])
    @tm('In')
    def _(t, i):
        ps = sig(t)['params']
        if is_sym(i): i = it.concretize(i, list(range(len(ps))))
        if not 0 <= i < len(ps): it.rt_panic('index out of range [%d] with length %d' % (i, len(ps)))
        return rtype(ps[i])
    @tm('Out')
    def _(t, i):
        ps = sig(t)['results']
        if is_sym(i): i = it.concretize(i, list(range(len(ps))))
        if not 0 <= i < len(ps): it.rt_panic('index out of range [%d] with length %d' % (i, len(ps)))
        return rtype(ps[i])
    @tm('IsVariadic')
    def _(t): return sig(t)['variadic']
    def sig(t):
        u = T.under(t)
        if u['kind'] != 'signature':
            raise GoPanic(Iface(T.id_of('string'), b'reflect: NumIn of non-func type ' + T.str(t).encode()))
        return u
    @tm('NumMethod')
    def _(t): return len(exported_methods(t))
    def method_struct(t, m, idx):
        mt = T.id_of('reflect.Method')
        # Name, PkgPath, Type, Func, Index
        if T.kind(t) == 'interface':
            ft = m['sig']; fn = T.zero(T.id_of('reflect.Value'))
        else:
            s = T.under(m['sig'])
            ft = func_of([t] + s['params'], s['results'], s['variadic'])
            fn = RVal(ft, Closure(it.fnref(m['fn'])))
        return StructV([m['name'].encode(), b'', rtype(ft), fn, idx], mt)
    @tm('Method')
    def _(t, i):
        ms = exported_methods(t)
        if is_sym(i): i = it.concretize(i, list(range(len(ms))))
        if not 0 <= i < len(ms): raise GoPanic(Iface(T.id_of('string'), b'reflect: Method index out of range'))
        return method_struct(t, ms[i], i)
    @tm('MethodByName')
    def _(t, name):
        name = conc_str(name)
        ms = exported_methods(t)
        for idx, m in enumerate(ms):
            if m['name'].encode() == name:
                return (method_struct(t, m, idx), True)
        return (T.zero(T.id_of('reflect.Method')), False)
    @tm('AssignableTo')
    def _(t, u):
        if u is None: raise GoPanic(Iface(T.id_of('string'), b'reflect: nil type passed to Type.AssignableTo'))
        return assignable(t, u.v.tid)
    @tm('Implements')
    def _(t, u):
        if u is None: raise GoPanic(Iface(T.id_of('string'), b'reflect: nil type passed to Type.Implements'))
        if T.kind(u.v.tid) != 'interface': raise GoPanic(Iface(T.id_of('string'), b'reflect: non-interface type passed to Type.Implements'))
        return implements(t, u.v.tid)
    @tm('String')
    def _(t): return short_type_str(t).encode()
    @tm('Name')
    def _(t):
        d = T.d[t]
        if d['kind'] == 'named': return d['name'].encode()
        if d['kind'] == 'basic': return d['name'].encode()
        return b''
    @tm('PkgPath')
    def _(t):
        d = T.d[t]
        return d['pkg'].encode() if d['kind'] == 'named' else b''
    @tm('Len')
    def _(t): return T.under(t)['len']
    @tm('Comparable')
    def _(t): return T.kind(t) not in ('slice', 'map', 'signature')

    def short_type_str(t):
        if t is None: return '<nil>'
        if not isinstance(t, int): return str(t)
        s = T.str(t)
        # reflect prints package name, not path
        return re.sub(r'[A-Za-z0-9_.\-/]*/', '', s)
    it.short_type_str = short_type_str

    def conc_str(s):
        if isinstance(s, bytes): return s
        if isinstance(s, SymStr):
            out = []
            for b in s.b:
                out.append(it.concretize(b) if is_sym(b) else b)
            return bytes(out)
        h = getattr(s, 'concretize', None)
        if h is not None: return h(it)
        raise Unsupported('string needed concrete: %r' % (s,))
    it.conc_str = conc_str

    def field_by_name_type(t, name):
        """Go selector rule on struct type t: returns (index path, field type) or None (absent or ambiguous)"""
        name = conc_str(name)
        if T.kind(t) != 'struct':
            raise GoPanic(Iface(T.id_of('string'), b'reflect: FieldByName of non-struct type ' + T.str(t).encode()))
        cur = [(t, [])]
        seen = set()
        while cur:
            nxt = []
            found = []
            for (st, path) in cur:
                if st in seen: continue
                seen.add(st)
                for i, f in enumerate(T.under(st)['fields']):
                    if f['name'].encode() == name:
                        found.append((path + [i], f['type']))
                    elif f['embedded']:
                        ft = f['type']
                        if T.kind(ft) == 'pointer': ft = T.under(ft)['elem']
                        if T.kind(ft) == 'struct':
                            nxt.append((ft, path + [i]))
            if len(found) == 1: return found[0]
            if len(found) > 1: return None
            cur = nxt
        return None
    it.field_by_name_type = field_by_name_type

    # ------------------------------------------------------------------ reflect package funcs
    def invalid():
        return T.zero(T.id_of('reflect.Value'))

    def isvalid(v):
        return isinstance(v, RVal)

    def m_TypeOf(it_, a):
        i = a[0]
        if i is None: return None
        if not isinstance(i, Iface): raise Unsupported('TypeOf %r' % (i,))
        if not isinstance(i.tid, int):
            raise Unsupported('TypeOf special ' + str(i.tid))
        return rtype(i.tid)
    M['reflect.TypeOf'] = m_TypeOf

    def m_ValueOf(it_, a):
        i = a[0]
        if i is None: return invalid()
        if not isinstance(i.tid, int):
            if i.tid == RTYPE:
                return RVal(RTYPE, i.v)
            raise Unsupported('ValueOf special ' + str(i.tid))
        return RVal(i.tid, i.v)
    M['reflect.ValueOf'] = m_ValueOf

    def vm_(name):
        def deco(f):
            M['(reflect.Value).' + name] = lambda it_, a: f(*a)
            return f
        return deco

    def vkind(v):
        if not isvalid(v): return 0
        if v.tid == RTYPE: return 22
        return kind_of(v.tid)

    def rpanic(msg):
        raise GoPanic(Iface(T.id_of('string'), msg.encode() if isinstance(msg, str) else msg))

    def verr(method, v):
        # *reflect.ValueError
        k = vkind(v)
        rpanic('reflect: call of reflect.Value.%s on %s Value' % (method, 'zero' if k == 0 else KNAME[k].lower()))

    @vm_('Kind')
    def _(v): return vkind(v)
    @vm_('IsValid')
    def _(v): return isvalid(v)
    @vm_('IsNil')
    def v_isnil(v):
        k = vkind(v)
        if k in (18, 19, 21, 22, 26):
            return v.v is None
        if k == 20:
            return v.v is None
        if k == 23:
            return v.v.arr is None
        verr('IsNil', v)
    @vm_('IsZero')
    def _(v):
        raise Unsupported('IsZero')
    @vm_('CanInterface')
    def _(v):
        if not isvalid(v): rpanic('reflect: call of reflect.Value.CanInterface on zero Value')
        return not v.ro
    @vm_('Interface')
    def v_interface(v):
        if not isvalid(v): rpanic('reflect: call of reflect.Value.Interface on zero Value')
        if v.ro: rpanic('reflect.Value.Interface: cannot return value obtained from unexported field or method')
        if v.tid == RTYPE: return Iface(RTYPE, v.v)
        if T.kind(v.tid) == 'interface':
            return v.v
        return Iface(v.tid, copyval(v.v))
    it.rv_interface = v_interface
    @vm_('Type')
    def _(v):
        if not isvalid(v): rpanic('reflect: call of reflect.Value.Type on zero Value')
        return rtype(v.tid)
    @vm_('Elem')
    def v_elem(v):
        k = vkind(v)
        if k == 22:
            if v.v is None: return invalid()
            et = T.under(v.tid)['elem']
            if isinstance(v.v, Ptr):
                agg_kind = T.kind(et)
                if agg_kind in ('struct', 'array'):
                    # keep identity of the aggregate so FieldByName etc. see current contents
                    return RVal(et, it.addr_of_aggregate(v.v), v.ro, v.v)
                return RVal(et, it.load(v.v), v.ro, v.v)
            raise Unsupported('Elem of pointer payload %r' % (v.v,))
        if k == 20:
            if v.v is None: return invalid()
            if not isinstance(v.v.tid, int): raise Unsupported('Elem of special iface')
            return RVal(v.v.tid, v.v.v, v.ro)
        verr('Elem', v)
    def m_Indirect(it_, a):
        v = a[0]
        if vkind(v) != 22: return v
        return v_elem(v)
    M['reflect.Indirect'] = m_Indirect
    @vm_('Len')
    def v_len(v):
        k = vkind(v)
        if k in (23, 24, 21, 17): return it.go_len(v.v)
        verr('Len', v)
    @vm_('Cap')
    def _(v):
        if vkind(v) == 23: return v.v.cap
        verr('Cap', v)
    @vm_('Index')
    def v_index(v, i):
        k = vkind(v)
        if k == 23 or k == 17:
            n = it.go_len(v.v)
            if not it.inrange(i, n): rpanic('reflect: slice index out of range')
            et = T.under(v.tid)['elem']
            if k == 23:
                h = getattr(v.v.arr, 'rv_index', None)
                if h is not None: return RVal(et, h(it, v.v, i), v.ro)
                if is_sym(i):
                    el = it.load(Ptr(v.v.arr, z3.simplify(v.v.off + i)))
                else:
                    el = v.v.arr.a[v.v.off + i]
            else:
                el = it.sym_read(v.v, i) if is_sym(i) else v.v.a[i]
            return RVal(et, el, v.ro)
        if k == 24:
            n = len(v.v)
            if not it.inrange(i, n): rpanic('reflect: string index out of range')
            return RVal(T.id_of('uint8'), it.str_index(v.v, i), v.ro)
        verr('Index', v)
    @vm_('Slice')
    def v_slice(v, a, b):
        k = vkind(v)
        if k == 23:
            s = v.v
            cap = s.cap
            if is_sym(a) or is_sym(b) or is_sym(cap):
                bv = lambda x: x if is_sym(x) else z3.BitVecVal(x, 64)
                if not it.branch(z3.And(bv(a) >= 0, bv(a) <= bv(b), bv(b) <= bv(cap))):
                    rpanic('reflect.Value.Slice: slice index out of bounds')
                h = getattr(s.arr, 'rv_slice', None) if s.arr is not None else None
                if h is not None:
                    return RVal(v.tid, h(it, s, a, b), v.ro)
                a = it.concretize(a, list(range(cap + 1))); b = it.concretize(b, list(range(cap + 1)))
            if not (0 <= a <= b <= cap): rpanic('reflect.Value.Slice: slice index out of bounds')
            if s.arr is None: return RVal(v.tid, SliceV(None, 0, 0, 0), v.ro)
            return RVal(v.tid, SliceV(s.arr, s.off + a, b - a, cap - a), v.ro)
        if k == 24:
            n = len(v.v)
            if is_sym(a) or is_sym(b):
                bv = lambda x: x if is_sym(x) else z3.BitVecVal(x, 64)
                if not it.branch(z3.And(bv(a) >= 0, bv(a) <= bv(b), bv(b) <= n)):
                    rpanic('reflect.Value.Slice: string slice index out of bounds')
                a = it.concretize(a, list(range(n + 1))); b = it.concretize(b, list(range(n + 1)))
            if not (0 <= a <= b <= n): rpanic('reflect.Value.Slice: string slice index out of bounds')
            sv = v.v
            return RVal(v.tid, SymStr(sv.b[a:b]) if isinstance(sv, SymStr) else sv[a:b], v.ro)
        if k == 17:
            if v.addr is None: rpanic('reflect.Value.Slice: slice of unaddressable array')
            raise Unsupported('Slice of array')
        verr('Slice', v)
    @vm_('String')
    def _(v):
        k = vkind(v)
        if k == 24: return v.v
        if k == 0: return b'<invalid Value>'
        return ('<%s Value>' % short_type_str(v.tid)).encode()
    @vm_('Int')
    def _(v):
        k = vkind(v)
        if 2 <= k <= 6:
            return it.int_conv(v.v, T.intinfo(v.tid), (64, True))
        verr('Int', v)
    @vm_('Bool')
    def _(v):
        if vkind(v) == 1: return v.v
        verr('Bool', v)
    @vm_('MapIndex')
    def v_mapindex(v, key):
        if vkind(v) != 21: verr('MapIndex', v)
        u = T.under(v.tid)
        if not isvalid(key): rpanic('reflect: call of reflect.Value.MapIndex on zero Value')  # key.assignTo
        kt = u['key']
        if not assignable(key.tid, kt):
            rpanic('reflect.Value.MapIndex: value of type %s is not assignable to type %s' % (short_type_str(key.tid), short_type_str(kt)))
        kv = key.v
        if T.kind(kt) == 'interface' and T.kind(key.tid) != 'interface':
            kv = Iface(key.tid, key.v)
        if v.v is None: return invalid()
        val, ok = it.map_lookup(v.v, kv, u['elem'])
        if not ok: return invalid()
        return RVal(u['elem'], val, v.ro or key.ro)
    @vm_('MapKeys')
    def _(v):
        if vkind(v) != 21: verr('MapKeys', v)
        u = T.under(v.tid)
        items = [] if v.v is None else it.map_items(v.v)
        els = [RVal(u['key'], k, v.ro) for k, _ in items]
        return SliceV(ArrayV(els), 0, len(els), len(els))
    @vm_('NumField')
    def _(v):
        if vkind(v) != 25: verr('NumField', v)
        return len(T.under(v.tid)['fields'])
    @vm_('Field')
    def _(v, i):
        if vkind(v) != 25: verr('Field', v)
        f = T.under(v.tid)['fields'][i]
        return RVal(f['type'], v.v.f[i], v.ro or not f['exported'])
    @vm_('FieldByName')
    def v_fieldbyname(v, name):
        if vkind(v) != 25: verr('FieldByName', v)
        r = field_by_name_type(v.tid, name)
        if r is None: return invalid()
        path, ft = r
        cur = v
        for n_, k in enumerate(path):
            if vkind(cur) == 22:
                if cur.v is None:
                    rpanic('reflect: indirection through nil pointer to embedded struct')
                cur = v_elem(cur)
            f = T.under(cur.tid)['fields'][k]
            ro = cur.ro or (not f['exported'] and not (f['embedded'] and False))
            # unexported embedded struct fields: promoted exported fields stay accessible (flagEmbedRO only applies to the embedded field itself)
            if not f['exported'] and f['embedded'] and n_ < len(path) - 1:
                ro = cur.ro
            cur = RVal(f['type'], cur.v.f[k], ro, Ptr(cur.v, k))
        return cur
    @vm_('NumMethod')
    def v_nummethod(v):
        if not isvalid(v): rpanic('reflect: call of reflect.Value.NumMethod on zero Value')
        if v.tid == RTYPE: return 30
        if T.kind(v.tid) == 'interface':
            if v.v is None: return len(exported_methods(v.tid))
        return len(exported_methods(v.tid))
    @vm_('MethodByName')
    def v_methodbyname(v, name):
        if not isvalid(v): rpanic('reflect: call of reflect.Value.MethodByName on zero Value')
        if v.ro: return invalid()
        name = conc_str(name)
        if v.tid == RTYPE: raise Unsupported('MethodByName on rtype')
        for m in exported_methods(v.tid):
            if m['name'].encode() == name:
                s = T.under(m['sig'])
                recv = v.v
                if T.kind(v.tid) == 'interface':
                    raise Unsupported('MethodByName on interface-kinded value')
                fn = it.fnref(m['fn'])
                return RVal(m['sig'], Closure(BoundMethod(fn, copyval(recv))), v.ro)
        return invalid()
    @vm_('Call')
    def v_call(fv, in_):
        if vkind(fv) != 19: verr('Call', fv)
        if fv.v is None: rpanic('reflect: call of nil function')  # reflect.Value.Call: call of nil function
        if fv.ro: rpanic('reflect: reflect.Value.Call using value obtained using unexported field')
        s = T.under(fv.tid)
        ins = [] if in_.arr is None else in_.arr.a[in_.off:in_.off + in_.len]
        params = s['params']
        n = len(params)
        if s['variadic']:
            if len(ins) < n - 1: rpanic('reflect: Call with too few input arguments')
        else:
            if len(ins) < n: rpanic('reflect: Call with too few input arguments')
            if len(ins) > n: rpanic('reflect: Call with too many input arguments')
        for x in ins:
            if not isvalid(x): rpanic('reflect: reflect.Value.Call using zero Value argument')
        args = []
        fixed = n - 1 if s['variadic'] else n
        def conv(x, pt):
            if x.ro: rpanic('reflect: reflect.Value.Call using value obtained using unexported field')
            if not assignable(x.tid, pt):
                rpanic('reflect: Call using %s as type %s' % (short_type_str(x.tid), short_type_str(pt)))
            if T.kind(pt) == 'interface' and T.kind(x.tid) != 'interface':
                return Iface(x.tid, copyval(x.v))
            return copyval(x.v)
        for k in range(fixed):
            args.append(conv(ins[k], params[k]))
        if s['variadic']:
            et = T.under(params[-1])['elem']
            rest = [conv(x, et) for x in ins[fixed:]]
            args.append(SliceV(ArrayV(rest), 0, len(rest), len(rest)) if rest else SliceV(None, 0, 0, 0))
        res = it.call_value(fv.v, args)
        rs = s['results']
        if len(rs) == 0: outs = []
        elif len(rs) == 1: outs = [RVal(rs[0], res)]
        else: outs = [RVal(t, r) for t, r in zip(rs, res)]
        return SliceV(ArrayV(outs), 0, len(outs), len(outs))
    it.rv_call = v_call

    def m_Zero(it_, a):
        t = tid_of(a[0])
        return RVal(t, T.zero(t))
    M['reflect.Zero'] = m_Zero
    def m_SliceOf(it_, a):
        return rtype(slice_of(tid_of(a[0])))
    M['reflect.SliceOf'] = m_SliceOf
    def m_PtrTo(it_, a):
        return rtype(ptr_to(tid_of(a[0])))
    M['reflect.PtrTo'] = m_PtrTo
    M['reflect.PointerTo'] = m_PtrTo
    def m_FuncOf(it_, a):
        def lst(s):
            out = []
            for x in ([] if s.arr is None else s.arr.a[s.off:s.off + s.len]):
                if x is None:
                    it.rt_panic('interface conversion: reflect.Type is nil, not *reflect.rtype')
                out.append(tid_of(x))
            return out
        return rtype(func_of(lst(a[0]), lst(a[1]), a[2]))
    M['reflect.FuncOf'] = m_FuncOf

    def deep_equal(x, y):
        """reflect.DeepEqual on two interface values"""
        if x is None or y is None: return x is None and y is None
        if x.tid != y.tid: return False
        return deep_eq_val(x.v, y.v, x.tid)
    def deep_eq_val(a, b, tid):
        k = T.kind(tid)
        u = T.under(tid)
        if k == 'basic':
            n = u['name']
            if n in ('float32', 'float64'):
                return it.simp_bool(z3.fpEQ(a, b))
            return it.binop('==', a, b, tid, tid)
        if k == 'slice':
            if (a.arr is None) != (b.arr is None): return False
            if a.len != b.len: return False
            if a.arr is b.arr and a.off == b.off: return True
            cs = [deep_eq_val(a.arr.a[a.off + i], b.arr.a[b.off + i], u['elem']) for i in range(a.len)]
            return conj(cs)
        if k == 'array':
            return conj([deep_eq_val(p, q, u['elem']) for p, q in zip(a.a, b.a)])
        if k == 'struct':
            return conj([deep_eq_val(p, q, f['type']) for p, q, f in zip(a.f, b.f, u['fields'])])
        if k == 'interface':
            return deep_equal(a, b)
        if k == 'pointer':
            if a is None or b is None: return a is None and b is None
            if a == b: return True
            return deep_eq_val(it.load(a), it.load(b), u['elem'])
        if k == 'map':
            if (a is None) != (b is None): return False
            if a is None or a is b: return True
            if len(a.d) != len(b.d): return False
            cs = []
            for hk, (kk, vv) in a.d.items():
                if hk not in b.d: return False
                cs.append(deep_eq_val(vv, b.d[hk][1], u['elem']))
            return conj(cs)
        if k == 'signature':
            return a is None and b is None
        raise Unsupported('DeepEqual on ' + k)
    def conj(cs):
        out = []
        for c in cs:
            if c is False: return False
            if c is not True: out.append(c)
        return True if not out else it.simp_bool(z3.And(out))
    M['reflect.DeepEqual'] = lambda it_, a: deep_equal(a[0], a[1])
    it.deep_equal = deep_equal

    # ------------------------------------------------------------------ fmt
    def fmt_value(v, verb='v'):
        if v is None: return '<nil>'
        if isinstance(v, Iface):
            if v.tid == RT_ERR_TID: return v.v.msg
            if v.tid == ERR_TID: return tostr(v.v.msg)
            if v.tid == RTYPE: return short_type_str(v.v.tid)
            if isinstance(v.tid, int):
                # Stringer / error methods
                mt = it.method_table(v.tid)
                if verb in ('v', 's') and 'Error' in mt:
                    try: return tostr(it.call(it.fnref(mt['Error']['fn']), [copyval(v.v)]))
                    except Unsupported: return '<error>'
                if verb in ('v', 's') and 'String' in mt:
                    try: return tostr(it.call(it.fnref(mt['String']['fn']), [copyval(v.v)]))
                    except Unsupported: return '<stringer>'
            return fmt_value(v.v, verb)
        if isinstance(v, bool): return 'true' if v else 'false'
        if isinstance(v, int):
            if verb == 'x': return '%x' % v
            return str(v)
        if isinstance(v, bytes):
            if verb == 'q': return '"' + v.decode('utf-8', 'replace') + '"'
            return v.decode('utf-8', 'replace')
        if isinstance(v, SymStr): return '<symstr>'
        if isinstance(v, ChoiceStr): return '<choice>'
        if is_sym(v):
            s = z3.simplify(v)
            if z3.is_bv_value(s): return str(s.as_long())
            if z3.is_fp_value(s): return str(s)
            return '<sym>'
        if isinstance(v, ErrV): return tostr(v.msg)
        if isinstance(v, RuntimeErr): return v.msg
        if isinstance(v, StructV): return '{' + ' '.join(fmt_value(x) for x in v.f) + '}'
        if isinstance(v, SliceV):
            if v.arr is None: return '[]'
            try: return '[' + ' '.join(fmt_value(x) for x in v.arr.a[v.off:v.off + v.len]) + ']'
            except Exception: return '[<sym>]'
        if isinstance(v, MapV): return 'map[...]'
        if isinstance(v, Ptr): return '0xc000000000'
        if isinstance(v, RVal): return fmt_value(v.v)
        return '<%s>' % type(v).__name__
    def tostr(b):
        if isinstance(b, bytes): return b.decode('utf-8', 'replace')
        if isinstance(b, SymStr): return '<symstr>'
        return str(b)
    def type_name_T(v):
        if v is None: return '<nil>'
        if isinstance(v, Iface): return short_type_str(v.tid)
        return '?'
    def sprintf(fmt, args):
        fmt = tostr(conc_str(fmt)) if not isinstance(fmt, bytes) else fmt.decode('utf-8', 'replace')
        out = []; ai = 0; i = 0
        while i < len(fmt):
            c = fmt[i]
            if c != '%':
                out.append(c); i += 1; continue
            i += 1
            flags = ''
            while i < len(fmt) and fmt[i] in '#+- 0123456789.':
                flags += fmt[i]; i += 1
            if i >= len(fmt): out.append('%!(NOVERB)'); break
            verb = fmt[i]; i += 1
            if verb == '%': out.append('%'); continue
            if ai >= len(args): out.append('%!' + verb + '(MISSING)'); continue
            a = args[ai]; ai += 1
            if verb == 'T': out.append(type_name_T(a))
            elif verb == 'U':
                v = a.v if isinstance(a, Iface) else a
                if is_sym(v): out.append('U+<sym>')
                else:
                    out.append('U+%04X' % v)
                    if '#' in flags:
                        try: out.append(" '%s'" % chr(v))
                        except Exception: pass
            elif verb == 'x' and '#' in flags:
                v = a.v if isinstance(a, Iface) else a
                out.append('0x' + fmt_value(v, 'x'))
            elif verb == 'q': out.append(fmt_value(a, 'q'))
            elif verb == 'v' and '#' in flags:
                v = a.v if isinstance(a, Iface) else a
                if isinstance(v, bytes): out.append('"' + v.decode('utf-8', 'replace') + '"')
                else: out.append(fmt_value(a))
            else: out.append(fmt_value(a, verb))
        return ''.join(out).encode('utf-8')
    def slice_list(s):
        return [] if s.arr is None else list(s.arr.a[s.off:s.off + s.len])
    M['fmt.Sprintf'] = lambda it_, a: sprintf(a[0], slice_list(a[1]))
    M['fmt.Errorf'] = lambda it_, a: Iface(ERR_TID, ErrV(sprintf(a[0], slice_list(a[1]))))
    M['errors.New'] = lambda it_, a: Iface(ERR_TID, ErrV(a[0]))
    M['fmt.Sprint'] = lambda it_, a: ' '.join(fmt_value(x) for x in slice_list(a[0])).encode()
    M['fmt.Println'] = lambda it_, a: (0, None)
    M['fmt.Printf'] = lambda it_, a: (0, None)
    IM[(ERR_TID, 'Error')] = lambda it_, recv, args: recv.v.msg
    IM[(RT_ERR_TID, 'Error')] = lambda it_, recv, args: recv.v.msg.encode()
    it.sprintf = sprintf
    it.fmt_value = fmt_value

    # ------------------------------------------------------------------ strings (concrete fast paths; symbolic falls to SSA body)
    def conc_or_body(name, f):
        def m(it_, a):
            if all(isinstance(x, (bytes, int, bool)) for x in a):
                return f(*a)
            fn = it.funcs.get(name)
            if fn is not None and fn.j.get('blocks'):
                # run the real body
                saved = it.models.pop(name)
                try: return it.call(fn, a)
                finally: it.models[name] = saved
            raise Unsupported(name + ' on symbolic string')
        M[name] = m

    conc_or_body('strings.HasSuffix', lambda s, p: s.endswith(p))
    conc_or_body('strings.IndexByte', lambda s, c: s.find(bytes([c])))
    conc_or_body('strings.Index', lambda s, sub: s.find(sub))
    conc_or_body('strings.IndexRune', lambda s, r: s.find(chr(r).encode('utf-8')) if 0 <= r < 0x110000 and not (0xd800 <= r < 0xe000) else -1)
    def sym_or_conc(name, conc, sym):
        def m(it_, a):
            if all(isinstance(x, (bytes, int, bool)) for x in a):
                return conc(*a)
            return sym(*a)
        M[name] = m
    def bv8(b): return b if is_sym(b) else z3.BitVecVal(b, 8)
    def s_contains_rune(s, r):
        # set membership without forking: s is a concrete ASCII set (the lexer's accept sets), r symbolic
        if isinstance(s, bytes) and all(c < 0x80 for c in s):
            if not s: return False
            return it.simp_bool(z3.Or([r == c for c in sorted(set(s))]))
        raise Unsupported('strings.ContainsRune on symbolic set')
    sym_or_conc('strings.ContainsRune', lambda s, r: (chr(r) in s.decode('utf-8', 'replace')) if 0 <= r < 0x110000 and not (0xd800 <= r < 0xe000) else False, s_contains_rune)
    def s_contains_any(s, chars):
        if isinstance(chars, bytes) and all(c < 0x80 for c in chars):
            els = it.str_els(s)
            cs = []
            for e in els:
                if is_sym(e): cs.append(z3.Or([e == c for c in sorted(set(chars))]))
                elif e in chars: return True
            return it.simp_bool(z3.Or(cs)) if cs else False
        raise Unsupported('strings.ContainsAny with symbolic chars')
    sym_or_conc('strings.ContainsAny', lambda s, chars: any(c in s.decode('utf-8', 'replace') for c in chars.decode('utf-8', 'replace')), s_contains_any)
    def s_contains(s, sub):
        if isinstance(sub, bytes):
            els = it.str_els(s)
            n, k = len(els), len(sub)
            if k == 0: return True
            alts = []
            for i in range(n - k + 1):
                cs = []
                ok = True
                for j in range(k):
                    e = els[i + j]
                    if is_sym(e): cs.append(e == sub[j])
                    elif e != sub[j]: ok = False; break
                if not ok: continue
                if not cs: return True
                alts.append(z3.And(cs))
            return it.simp_bool(z3.Or(alts)) if alts else False
        raise Unsupported('strings.Contains with symbolic needle')
    sym_or_conc('strings.Contains', lambda s, sub: sub in s, s_contains)
    def s_has_prefix(s, p):
        if isinstance(p, bytes):
            els = it.str_els(s)
            if len(els) < len(p): return False
            cs = []
            for e, c in zip(els, p):
                if is_sym(e): cs.append(e == c)
                elif e != c: return False
            return it.simp_bool(z3.And(cs)) if cs else True
        raise Unsupported('strings.HasPrefix with symbolic prefix')
    sym_or_conc('strings.HasPrefix', lambda s, p: s.startswith(p), s_has_prefix)
    def s_replace_sym(s, old, new, n):
        # exact for a one-byte old string on (partly) symbolic bytes: forks per symbolic byte
        if isinstance(old, bytes) and isinstance(new, bytes) and len(old) == 1 and (not is_sym(n)) and n < 0:
            out = []
            for e in it.str_els(s):
                if is_sym(e):
                    if it.branch(e == old[0]): out.extend(new)
                    else: out.append(e)
                elif e == old[0]: out.extend(new)
                else: out.append(e)
            return it.mkstr(out)
        raise Unsupported('strings.Replace on symbolic string')

    def replace(s, old, new, n):
        return s.replace(old, new) if n < 0 else s.replace(old, new, n)
    sym_or_conc('strings.Replace', replace, s_replace_sym)
    conc_or_body('strings.ReplaceAll', lambda s, o, n: s.replace(o, n))
    conc_or_body('strings.ToUpper', lambda s: s.decode('utf-8', 'replace').upper().encode())
    conc_or_body('strings.ToLower', lambda s: s.decode('utf-8', 'replace').lower().encode())
    conc_or_body('strings.TrimSpace', lambda s: s.strip())
    def split(s, sep):
        parts = s.split(sep) if sep else [c.encode() for c in s.decode('utf-8', 'replace')]
        return SliceV(ArrayV(parts), 0, len(parts), len(parts))
    def s_split_sym(s, sep):
        if isinstance(sep, bytes) and len(sep) == 1:
            parts = [[]]
            for e in it.str_els(s):
                if is_sym(e):
                    if it.branch(e == sep[0]): parts.append([])
                    else: parts[-1].append(e)
                elif e == sep[0]: parts.append([])
                else: parts[-1].append(e)
            ps = [it.mkstr(p) for p in parts]
            return SliceV(ArrayV(ps), 0, len(ps), len(ps))
        raise Unsupported('strings.Split on symbolic string with this separator')
    sym_or_conc('strings.Split', split, s_split_sym)
    def s_count_sym(s_, sep):
        if isinstance(sep, bytes) and len(sep) == 1:
            els = it.str_els(s_)
            n = 0; terms = []
            for e in els:
                if is_sym(e): terms.append(z3.If(e == sep[0], z3.BitVecVal(1, 64), z3.BitVecVal(0, 64)))
                elif e == sep[0]: n += 1
            if not terms: return n
            return z3.simplify(z3.BitVecVal(n, 64) + sum(terms[1:], terms[0]))
        raise Unsupported('strings.Count on symbolic string with this separator')
    sym_or_conc('strings.Count', lambda s_, sub: (len(s_.decode('utf-8', 'replace')) + 1) if sub == b'' else s_.count(sub), s_count_sym)
    # sort on []int (concrete elements): in place, visible to the store hook
    def ints_of(sl):
        if sl.arr is None: return []
        xs = sl.arr.a[sl.off:sl.off + sl.len]
        if any(is_sym(x) for x in xs): raise Unsupported('sort of symbolic ints')
        return list(xs)
    def m_sortInts(it_, a):
        sl = a[0]; xs = ints_of(sl); ys = sorted(xs)
        for k, (x, y) in enumerate(zip(xs, ys)):
            if x != y:
                if it.store_hook is not None: it.store_hook(it, Ptr(sl.arr, sl.off + k), y)
                sl.arr.a[sl.off + k] = y
        return None
    M['sort.Ints'] = m_sortInts
    M['sort.IntsAreSorted'] = lambda it_, a: (lambda xs: all(xs[i] <= xs[i + 1] for i in range(len(xs) - 1)))(ints_of(a[0]))
    def m_searchInts(it_, a):
        import bisect
        x = a[1]
        xs = ints_of(a[0])
        if is_sym(x):
            # position = number of elements below x (the slice is sorted when this is meaningful)
            ts = [z3.If(z3.BitVecVal(e, 64) < x, z3.BitVecVal(1, 64), z3.BitVecVal(0, 64)) for e in xs]
            return z3.simplify(sum(ts[1:], ts[0])) if ts else 0
        return bisect.bisect_left(xs, x)
    M['sort.SearchInts'] = m_searchInts

    def m_repeat(it_, a):
        return a[0] * a[1]
    M['strings.Repeat'] = m_repeat
    def m_NewReplacer(it_, a):
        return Ptr(Box(Opaque('replacer', [conc_str(x) for x in slice_list(a[0])])))
    M['strings.NewReplacer'] = m_NewReplacer
    def m_ReplacerReplace(it_, a):
        r, s = a
        pairs = r.base.v.data
        els = it.str_els(s)
        # generic algorithm on (possibly symbolic) bytes: at each position first matching old string in argument order
        out = []; i = 0
        olds = pairs[0::2]; news = pairs[1::2]
        while i < len(els):
            matched = False
            for o, nw in zip(olds, news):
                if i + len(o) <= len(els) and len(o) > 0:
                    cs = []
                    ok = True
                    for j, ob in enumerate(o):
                        e = els[i + j]
                        if is_sym(e): cs.append(e == ob)
                        elif e != ob: ok = False; break
                    if not ok: continue
                    if cs:
                        if not it.branch(z3.And(cs)): continue
                    out.extend(nw); i += len(o); matched = True; break
            if not matched:
                out.append(els[i]); i += 1
        return it.mkstr(out)
    M['(*strings.Replacer).Replace'] = m_ReplacerReplace

    # ------------------------------------------------------------------ unicode
    import unicodedata
    def uni_pred(name, f):
        def m(it_, a):
            r = a[0]
            if is_sym(r):
                h = it.call_hooks.get('unicode')
                if h is not None: return h(it, name, r)
                raise Unsupported(name + ' on symbolic rune (install unicode hook)')
            if r < 0 or r > 0x10ffff: return False
            return f(chr(r))
        M[name] = m
    import json as _json, os as _os
    _ut = None
    def unitab():
        nonlocal _ut
        if _ut is None:
            pth = _os.path.join((_os.environ.get('VERIF_DIR') or _os.path.dirname(_os.path.dirname(_os.path.dirname(_os.path.abspath(__file__))))), '.cache', 'unitab.json')
            if not _os.path.exists(pth):
                # generate the table from the real unicode package (setup.sh does this too)
                import subprocess as _sp
                root = _os.path.dirname(_os.path.dirname(pth))
                _os.makedirs(_os.path.dirname(pth), exist_ok=True)
                env = dict(_os.environ, GOFLAGS='-mod=mod', GOPROXY='off', GOSUMDB='off', GOTOOLCHAIN='local')
                out = _sp.run(['go', 'run', '.'], cwd=_os.path.join(root, 'tools', 'unitab'), env=env, capture_output=True, text=True)
                if out.returncode != 0:
                    raise Unsupported('unicode table could not be generated: ' + out.stderr[-200:])
                open(pth, 'w').write(out.stdout)
            _ut = _json.load(open(pth))
        return _ut
    def uni_hook(it_, name, r):
        # exact for runes below U+0800 (table generated from the real unicode package); larger runes are outside the bound
        if it.branch(r == 0xFFFD):
            return False   # U+FFFD (what invalid UTF-8 decodes to) is a symbol: not a space, letter or digit
        if it.branch(z3.Or(r < 0, r >= 0x800)):
            it.stats.assumed_away += 1
            it.stats.cuts['rune >= U+0800 (outside the bound of the unicode model)'] = it.stats.cuts.get('rune >= U+0800 (outside the bound of the unicode model)', 0) + 1
            raise PathEnd('rune outside unicode model')
        return it.simp_bool(z3.Or([z3.And(r >= lo, r <= hi) if lo != hi else r == lo for lo, hi in unitab()[name]]))
    it.call_hooks.setdefault('unicode', uni_hook)
    uni_pred('unicode.IsSpace', lambda c: c in '\t\n\v\f\r \x85\xa0                　')
    uni_pred('unicode.IsLetter', lambda c: unicodedata.category(c).startswith('L'))
    uni_pred('unicode.IsDigit', lambda c: unicodedata.category(c) == 'Nd')

    # ------------------------------------------------------------------ strconv
    def err(msg): return Iface(ERR_TID, ErrV(msg.encode() if isinstance(msg, str) else msg))
    def sym_parse(kind, s, extra, rsort):
        els = [bv8(e) for e in it.str_els(s)]
        key = (kind, len(els), extra)
        fs = it.uf_parse.get(key)
        if fs is None:
            dom = [z3.BitVecSort(8)] * len(els)
            fs = (z3.Function('%s_%s_%d_val' % (kind, extra, len(els)), *(dom + [rsort])) if els else z3.Const('%s_%s_0_val' % (kind, extra), rsort),
                  z3.Function('%s_%s_%d_ok' % (kind, extra, len(els)), *(dom + [z3.BoolSort()])) if els else z3.Const('%s_%s_0_ok' % (kind, extra), z3.BoolSort()))
            it.uf_parse[key] = fs
        val = fs[0](*els) if els else fs[0]
        ok = fs[1](*els) if els else fs[1]
        if it.branch(ok):
            return (val, None)
        return (T.zero(T.id_of('int64')) if kind == 'ParseInt' else z3.FPVal(0.0, z3.Float64()), err('strconv.%s: parsing <symbolic>: invalid syntax' % kind))
    it.uf_parse = {}
    def parse_int_sym(s, base, bits):
        # exact model of strconv.ParseInt on (partly) symbolic bytes for bases 0, 10, 16 within a length bound
        # (no overflow possible): sign, base prefixes (base 0), digit validity, value. Underscores are invalid
        # unless base == 0 (the callers in /repo strip them first anyway).
        els = it.str_els(s)
        if is_sym(base) or is_sym(bits) or base not in (0, 10, 16) or bits != 64:
            return sym_parse('ParseInt', s, '%s_%s' % (base, bits), z3.BitVecSort(64))
        def is_c(e, chars):
            if is_sym(e): return it.branch(z3.Or([e == c for c in chars]))
            return e in chars
        bad = lambda: (0, err('strconv.ParseInt: parsing <symbolic>: invalid syntax'))
        if not els: return bad()
        neg = False
        if is_c(els[0], b'+-'):
            neg = is_c(els[0], b'-')
            els = els[1:]
            if not els: return bad()
        b = base
        if base == 0:
            b = 10
            if is_c(els[0], b'0') and len(els) > 1:
                if is_c(els[1], b'xX'): b = 16; els = els[2:]
                elif is_c(els[1], b'bB'): b = 2; els = els[2:]
                elif is_c(els[1], b'oO'): b = 8; els = els[2:]
                else: b = 8; els = els[1:]
                if not els: return bad()
        if len(els) > {2: 60, 8: 20, 10: 18, 16: 15}[b]:
            raise Unsupported('ParseInt model: spelling longer than the no-overflow bound')
        val = z3.BitVecVal(0, 64)
        valid = []
        for e in els:
            e64 = z3.ZeroExt(56, bv8(e))
            d = z3.If(z3.And(e64 >= 48, e64 <= 57), e64 - 48, z3.If(z3.And(e64 >= 97, e64 <= 122), e64 - 87, z3.If(z3.And(e64 >= 65, e64 <= 90), e64 - 55, z3.BitVecVal(99, 64))))
            valid.append(z3.ULT(d, b))
            val = val * b + d
        ok = it.simp_bool(z3.And(valid))
        if not it.branch(ok) if not isinstance(ok, bool) else not ok:
            return bad()
        val = z3.simplify(-val if neg else val)
        return (val.as_long() - (1 << 64 if val.as_long() >> 63 else 0) if z3.is_bv_value(val) else val, None)

    def m_ParseInt(it_, a):
        if not isinstance(a[0], bytes):
            return parse_int_sym(a[0], a[1], a[2])
        s, base, bits = conc_str(a[0]), a[1], a[2]
        txt = s.decode('latin-1')
        try:
            t = txt
            neg = False
            if t[:1] in '+-':
                neg = t[0] == '-'; t = t[1:]
            if t == '': raise ValueError
            b = base
            if base == 0:
                b = 10
                if t[:2].lower() == '0x': b = 16; t = t[2:]
                elif t[:2].lower() == '0b': b = 2; t = t[2:]
                elif t[:2].lower() == '0o': b = 8; t = t[2:]
                elif t[:1] == '0' and len(t) > 1: b = 8; t = t[1:]
                if '_' in t:
                    # underscores only with base prefix and well-placed
                    if t.startswith('_') and b == 10: raise ValueError
                    if t.endswith('_') or '__' in t: raise ValueError
                    t = t.replace('_', '')
            if t == '' or not all(c.isascii() and c.isalnum() for c in t): raise ValueError
            v = int(t, b)
            if neg: v = -v
        except ValueError:
            return (0, err('strconv.ParseInt: parsing "%s": invalid syntax' % txt))
        lim = 1 << (bits - 1 if bits else 63)
        if v >= lim: return (lim - 1, err('strconv.ParseInt: parsing "%s": value out of range' % txt))
        if v < -lim: return (-lim, err('strconv.ParseInt: parsing "%s": value out of range' % txt))
        return (v, None)
    M['strconv.ParseInt'] = m_ParseInt
    def m_ParseFloat(it_, a):
        if not isinstance(a[0], bytes):
            # digits only (decided by the solver under the path condition): the correctly rounded value of a decimal
            # integer below 2^63 is the int->float64 conversion of that integer (both round to nearest even)
            els = it.str_els(a[0])
            if 0 < len(els) <= 18:
                alld = z3.And([z3.And(bv8(e) >= 48, bv8(e) <= 57) for e in els])
                if it.check(z3.Not(alld)) == z3.unsat:
                    v = z3.BitVecVal(0, 64)
                    for e in els:
                        v = v * 10 + (z3.ZeroExt(56, bv8(e)) - 48)
                    return (z3.simplify(z3.fpSignedToFP(FP_RM, v, z3.Float64())), None)
            return sym_parse('ParseFloat', a[0], '%s' % (a[1],), z3.Float64())
        s = conc_str(a[0]); txt = s.decode('latin-1')
        t = txt
        ok = re.fullmatch(r'[+-]?((\d[\d_]*)?\.?\d*([eE][+-]?\d+)?|0[xX][0-9a-fA-F_]*\.?[0-9a-fA-F_]*[pP][+-]?\d+|[iI]nf(inity)?|[nN]a[nN])', t) is not None
        if ok and not re.search(r'\d', t) and not re.fullmatch(r'[+-]?([iI]nf(inity)?|[nN]a[nN])', t): ok = False
        if ok and '_' in t: ok = False  # base prefix required for underscores
        try:
            if not ok: raise ValueError
            v = float.fromhex(t) if re.match(r'[+-]?0[xX]', t) else float(t)
        except (ValueError, OverflowError):
            return (z3.FPVal(0.0, z3.Float64()), err('strconv.ParseFloat: parsing "%s": invalid syntax' % txt))
        bits = struct.unpack('<Q', struct.pack('<d', v))[0]
        fv = z3.simplify(z3.fpBVToFP(z3.BitVecVal(bits, 64), z3.Float64()))
        if math.isinf(v) and 'nf' not in t:
            return (fv, err('strconv.ParseFloat: parsing "%s": value out of range' % txt))
        return (fv, None)
    M['strconv.ParseFloat'] = m_ParseFloat
    M['strconv.Itoa'] = lambda it_, a: str(a[0]).encode()

    # ------------------------------------------------------------------ regexp / math: uninterpreted
    RX = '*regexp.Regexp'
    def m_rxCompile(it_, a):
        pat = a[0]
        if isinstance(pat, bytes):
            try:
                re.compile(pat.decode('utf-8', 'replace'))
            except re.error as e:
                return (None, err('error parsing regexp: %s' % e))
        return (Ptr(Box(Opaque('regexp', pat))), None)
    M['regexp.Compile'] = m_rxCompile
    M['regexp.MustCompile'] = lambda it_, a: m_rxCompile(it_, a)[0]
    def rx_match(pat, s):
        if isinstance(pat, bytes) and isinstance(s, bytes):
            return re.search(pat.decode('utf-8', 'replace'), s.decode('utf-8', 'replace')) is not None
        h = it.call_hooks.get('regexp')
        if h is not None: return h(it, pat, s)
        raise Unsupported('regexp match on symbolic strings')
    def m_rxMatchString(it_, a):
        pat, s = a
        if isinstance(pat, bytes):
            try: re.compile(pat.decode('utf-8', 'replace'))
            except re.error as e: return (False, err('error parsing regexp: %s' % e))
        return (rx_match(pat, s), None)
    M['regexp.MatchString'] = m_rxMatchString
    M['(*regexp.Regexp).MatchString'] = lambda it_, a: rx_match(a[0].base.v.data, a[1])
    M['(*regexp.Regexp).String'] = lambda it_, a: a[0].base.v.data
    def m_rxMatchBytes(it_, a):
        sl = a[1]
        els = [] if sl.arr is None else list(sl.arr.a[sl.off:sl.off + sl.len])
        return rx_match(a[0].base.v.data, it.mkstr(els))
    M['(*regexp.Regexp).Match'] = m_rxMatchBytes

    # ------------------------------------------------------------------ sync.Map (Load/Store/LoadOrStore/Delete): a map keyed like a Go map
    it.syncmaps = {}
    def smap(recv):
        base = recv.base if isinstance(recv, Ptr) else recv
        key = id(it.addr_of_aggregate(recv)) if isinstance(recv, Ptr) else id(base)
        m = it.syncmaps.get(key)
        if m is None:
            m = MapV(None, None); m.ktid = T.id_of('interface{}') if 'interface{}' in T.by_str else None
            m.tag = ('syncmap', recv)
            it.syncmaps[key] = (m, recv)
            return m
        return m[0] if isinstance(m, tuple) else m
    def iface_key_eq(a, b):
        return it.iface_eq(a, b)
    def sm_find(m, k):
        hk = it.hkey(k)
        return hk
    def m_smLoad(it_, a):
        m = smap(a[0]); hk = it.hkey(a[1])
        e = m.d.get(hk)
        return (e[1], True) if e is not None else (None, False)
    def m_smStore(it_, a):
        m = smap(a[0])
        if it.store_hook is not None:
            agg = it.addr_of_aggregate(a[0]) if isinstance(a[0], Ptr) else a[0]
            it.store_hook(it, Ptr(agg, 0) if isinstance(agg, StructV) else Ptr(m, 'mapupdate'), a[2])
        m.d[it.hkey(a[1])] = (a[1], a[2])
        return None
    def m_smLoadOrStore(it_, a):
        v, ok = m_smLoad(it_, a[:2])
        if ok: return (v, True)
        m_smStore(it_, a)
        return (a[2], False)
    M['(*sync.Map).Load'] = m_smLoad
    M['(*sync.Map).Store'] = m_smStore
    M['(*sync.Map).LoadOrStore'] = m_smLoadOrStore
    M['(*sync.Map).Delete'] = lambda it_, a: smap(a[0]).d.pop(it.hkey(a[1]), None) and None

    it.uf_pow = z3.Function('math.Pow', z3.Float64(), z3.Float64(), z3.Float64())
    def m_pow(it_, a):
        x, y = a
        xs, ys = z3.simplify(x), z3.simplify(y)
        if z3.is_fp_value(xs) and z3.is_fp_value(ys):
            try:
                fx = fpval_to_float(xs); fy = fpval_to_float(ys)
                r = math.pow(fx, fy)
            except OverflowError:
                r = math.inf
            except ValueError:
                r = math.nan
            return float_to_fp(r)
        return it.uf_pow(x, y)
    M['math.Pow'] = m_pow
    # bit views of floats (NaN payloads are not modelled: fpToIEEEBV of a NaN is an unspecified but fixed pattern)
    def m_f64bits(it_, a):
        r = z3.simplify(z3.fpToIEEEBV(a[0]))
        return r.as_long() if z3.is_bv_value(r) else r
    M['math.Float64bits'] = m_f64bits
    M['math.Float32bits'] = m_f64bits
    M['math.Float64frombits'] = lambda it_, a: z3.simplify(z3.fpBVToFP(a[0] if is_sym(a[0]) else z3.BitVecVal(a[0], 64), z3.Float64()))
    M['math.Float32frombits'] = lambda it_, a: z3.simplify(z3.fpBVToFP(a[0] if is_sym(a[0]) else z3.BitVecVal(a[0], 32), z3.Float32()))
    M['math.IsNaN'] = lambda it_, a: it.simp_bool(z3.fpIsNaN(a[0]))
    M['math.IsInf'] = lambda it_, a: it.simp_bool(z3.And(z3.fpIsInf(a[0]), z3.BoolVal(True) if (not is_sym(a[1]) and a[1] == 0) else (z3.fpIsPositive(a[0]) if (not is_sym(a[1]) and a[1] > 0) else z3.fpIsNegative(a[0]))))
    it.log_calls = []


def fpval_to_float(s):
    if s.isNaN(): return math.nan
    if s.isInf(): return -math.inf if s.isNegative() else math.inf
    bv = z3.simplify(z3.fpToIEEEBV(s))
    bits = bv.as_long()
    if s.sort() == z3.Float32():
        return struct.unpack('<f', struct.pack('<I', bits))[0]
    return struct.unpack('<d', struct.pack('<Q', bits))[0]


def float_to_fp(f, sort=None):
    bits = struct.unpack('<Q', struct.pack('<d', f))[0]
    return z3.simplify(z3.fpBVToFP(z3.BitVecVal(bits, 64), z3.Float64()))
