import sys, os, json, argparse
sys.path.insert(0, os.path.dirname(os.path.abspath(__file__)))
import runner, props, engine


def main():
    if len(sys.argv) >= 3 and sys.argv[1] == 'replay':
        path = sys.argv[2]
        v = json.load(open(path))
        r = runner.native_replay([(v['harness_full'], path)])
        st = r.get(path)
        print(st)
        ok = st is not None and ((v['assert'] == 'uncaught-panic' and st[0] == 'PANIC') or v['assert'] in st[1])
        print('REPRODUCED' if ok else 'NOT-REPRODUCED')
        sys.exit(1 if ok else 0)
    ap = argparse.ArgumentParser()
    ap.add_argument('prop')
    ap.add_argument('--tier', default=os.environ.get('VERIF_TIER', 'quick'))
    ap.add_argument('--seed', type=int, default=int(os.environ.get('VERIF_SEED', '0') or 0))
    ap.add_argument('--procs', type=int, default=None)
    ap.add_argument('--only', default=None, help='substring filter on harness names (debug)')
    a = ap.parse_args()
    f = props.PROPS.get(a.prop)
    if f is None:
        print('unknown property', a.prop); sys.exit(2)
    props.SEED[0] = a.seed
    if 'VERIF_CROSSCHECK' not in os.environ:
        # per job: re-decide 1 (quick) / 3 (thorough) discharged queries with z3 4.8.12 and cvc5
        os.environ['VERIF_CROSSCHECK'] = '3' if a.tier == 'thorough' else '1'
    jobs, meta = f(a.tier)
    if a.only:
        jobs = [j for j in jobs if a.only in j[0]]
    rc = runner.run_property(a.prop, a.tier, jobs, meta, a.seed, a.procs)
    sys.exit(rc)


if __name__ == '__main__':
    main()
