# Driver: builds the SSA dump of /repo (+ overlaid harness files), explores a harness function path by
# path, decides assertions with z3, extracts counterexamples, and reports statistics.
import json, os, sys, time, hashlib, subprocess, pickle, struct, glob, multiprocessing, traceback
import z3
from interp import *
import models

VERIF = os.environ.get('VERIF_DIR') or os.path.dirname(os.path.dirname(os.path.dirname(os.path.abspath(__file__))))
REPO = os.environ.get('VERIF_REPO', '/repo')
MOD = 'github.com/antonmedv/expr'
PKGS = ['.', './ast', './checker', './compiler', './conf', './file', './optimizer', './parser', './parser/lexer', './vm', './docgen']
EXTRA = 'unicode/utf8,encoding/binary,strings,strconv'
GOENV = dict(os.environ, GOFLAGS='-mod=mod', GOPROXY='off', GOSUMDB='off', GOTOOLCHAIN='local')


def tree_hash():
    h = hashlib.sha256()
    for root in (REPO, os.path.join(VERIF, 'harness')):
        for dp, dn, fn in sorted(os.walk(root)):
            dn[:] = sorted(d for d in dn if d not in ('.git',))
            for f in sorted(fn):
                if f.endswith('.go') or f in ('go.mod',):
                    p = os.path.join(dp, f)
                    h.update(p.encode()); h.update(open(p, 'rb').read())
    h.update(open(os.path.join(VERIF, 'engine/ssa2json/main.go'), 'rb').read())
    h.update(EXTRA.encode())
    return h.hexdigest()[:24]


def ensure_tools():
    b = os.path.join(VERIF, 'bin/ssa2json')
    src = os.path.join(VERIF, 'engine/ssa2json/main.go')
    if not os.path.exists(b) or os.path.getmtime(b) < os.path.getmtime(src):
        os.makedirs(os.path.join(VERIF, 'bin'), exist_ok=True)
        r = subprocess.run(['go', 'build', '-o', b, '.'], cwd=os.path.join(VERIF, 'engine/ssa2json'), env=GOENV, capture_output=True, text=True)
        if r.returncode != 0:
            print(r.stderr, file=sys.stderr)
            raise SystemExit(2)
    return b


def load_program():
    """SSA dump of the current /repo working tree with the harness overlay; content-keyed cache."""
    b = ensure_tools()
    key = tree_hash()
    cdir = os.path.join(VERIF, '.cache')
    os.makedirs(cdir, exist_ok=True)
    pj = os.path.join(cdir, key + '.pickle')
    if os.path.exists(pj):
        try:
            with open(pj, 'rb') as f:
                return pickle.load(f), key
        except Exception:
            pass
    out = os.path.join(cdir, key + '.json')
    t = time.time()
    r = subprocess.run([b, '-dir', REPO, '-overlay', os.path.join(VERIF, 'harness'), '-extra', EXTRA, '-o', out] + PKGS,
                       env=GOENV, capture_output=True, text=True)
    if r.returncode != 0:
        print('ssa2json failed (repo does not build or a harness does not type-check):\n' + r.stderr, file=sys.stderr)
        raise SystemExit(2)
    prog = json.load(open(out))
    os.remove(out)
    # keep the cache small
    for old in sorted(glob.glob(os.path.join(cdir, '*.pickle')), key=os.path.getmtime)[:-10]:
        try: os.remove(old)
        except OSError: pass
    with open(pj + '.tmp', 'wb') as f:
        pickle.dump(prog, f)
    os.replace(pj + '.tmp', pj)
    return prog, key


class JobTimeout(BaseException):
    pass


class Violation:
    def __init__(self, aid, harness, nondet, taken, note=''):
        self.aid = aid; self.harness = harness; self.nondet = nondet; self.taken = taken; self.note = note
    def to_json(self):
        return {'assert': self.aid, 'harness': self.harness, 'inputs': self.nondet, 'decisions': self.taken, 'note': self.note}


def model_value(m, term):
    """python/json value of a term under model m"""
    if isinstance(term, bool): return term
    if isinstance(term, int): return term
    if isinstance(term, bytes): return {'str': list(term)}
    if isinstance(term, ChoiceStr):
        return m.eval(term.idx, model_completion=True).as_long()
    if isinstance(term, SymStr):
        return {'str': [b if isinstance(b, int) else m.eval(b, model_completion=True).as_long() for b in term.b]}
    v = m.eval(term, model_completion=True)
    if z3.is_bool(v): return z3.is_true(v)
    if z3.is_bv(v): return v.as_long()
    if z3.is_fp(v):
        bv = z3.simplify(z3.fpToIEEEBV(v))
        if not z3.is_bv_value(bv):
            # NaN: pick canonical quiet NaN
            return {'fbits': 0x7fc00000 if v.sort() == z3.Float32() else 0x7ff8000000000001}
        return {'fbits': bv.as_long()}
    return str(v)


class Explorer:
    def __init__(self, prog, timeout_ms=60000):
        self.prog = prog
        self.it = Interp(prog, timeout_ms)
        models.install(self.it)
        self.install_intrinsics()
        self.violations = []
        self.outcomes = {}
        self.inconclusive = []
        self.harness = None
        self.uncaught_panic_is_violation = True
        self.init_pkgs = []
        self.max_paths = 200000
        self.split_after = 0
        self.leftover = []
        self.witnesses = []
        self.max_witnesses = 1
        self.cross = []
        self.cross_seen = set()
        self.cross_budget = 0
        self.samples = []
        self.params = {}
        self.ufs = {}

    # ---------------------------------------------------------------- intrinsics
    def install_intrinsics(self):
        it = self.it
        T = it.T
        P = it.intrinsic_prefix

        def fresh_of(tid, name):
            u = T.under(tid)
            if u['kind'] == 'basic':
                n = u['name']
                ii = T.INTW.get(n)
                if ii: return it.fresh(name, z3.BitVecSort(ii[0]))
                if n == 'bool': return it.fresh(name, z3.BoolSort())
                if n == 'float64': return it.fresh(name, z3.Float64())
                if n == 'float32': return it.fresh(name, z3.Float32())
            raise Unsupported('fresh value of type ' + T.str(tid))

        def nondet(it_, args, fn):
            name = args[0].decode() if args and isinstance(args[0], bytes) else fn['name']
            v = fresh_of(fn['rtypes'][0], name)
            it.path.nondet.append((fn['name'].rsplit('.', 1)[-1], name, v))
            return v
        for n in ('vfInt', 'vfInt8', 'vfInt16', 'vfInt32', 'vfInt64', 'vfUint', 'vfUint8', 'vfUint16', 'vfUint32', 'vfUint64',
                  'vfFloat32', 'vfFloat64', 'vfBool', 'vfByte', 'vfRune'):
            P[n] = nondet

        def vfChoice(it_, args, fn):
            name = args[0].decode(); n = args[1]
            k = it.choose(n, name)
            it.path.nondet.append(('vfChoice', name, k))
            return k
        P['vfChoice'] = vfChoice

        def vfAssume(it_, args, fn):
            c = it.simp_bool(args[0])
            if c is True: return None
            if c is False:
                it.stats.assumed_away += 1
                raise PathEnd('assume false')
            it.add(c)
            if it.check() != z3.sat:
                it.stats.assumed_away += 1
                raise PathEnd('assume infeasible')
            return None
        P['vfAssume'] = vfAssume

        def vfAssert(it_, args, fn):
            aid = args[1].decode()
            c = it.simp_bool(args[0])
            st = it.stats
            if c is True:
                st.asserts_proved += 1
                self.note_sample(aid, 'concrete-true')
                return None
            if c is False:
                r = it.check()
                if r == z3.sat:
                    self.record_violation(aid, it.solver.model())
                elif r == z3.unknown:
                    self.inconclusive.append(('unknown', aid))
                raise PathEnd('assert failed')
            r = it.check(z3.Not(c))
            if r == z3.unsat:
                st.asserts_proved += 1
                self.note_sample(aid, 'unsat', c)
                self.cross_check(aid, c)
                it.add(c)
                return None
            if r == z3.sat:
                self.record_violation(aid, it.solver.model())
                it.add(c)
                if it.check() != z3.sat:
                    raise PathEnd('assert always fails')
                return None
            self.inconclusive.append(('unknown', aid))
            it.add(c)
            return None
        P['vfAssert'] = vfAssert

        def vfReach(it_, args, fn):
            rid = args[0].decode()
            it.stats.reach[rid] = it.stats.reach.get(rid, 0) + 1
            it.path.reached.append(rid)
            return None
        P['vfReach'] = vfReach

        def vfFail(it_, args, fn):
            aid = args[0].decode()
            r = it.check()
            if r == z3.sat:
                self.record_violation(aid, it.solver.model())
            elif r == z3.unknown:
                self.inconclusive.append(('unknown', aid))
            raise PathEnd('vfFail')
        P['vfFail'] = vfFail

        def vfConcrete(it_, args, fn):
            # make an int concrete by forking over feasible values
            return it.concretize(args[0])
        P['vfConcrete'] = vfConcrete

        def vfNote(it_, args, fn):
            it.path.events.append(args[0].decode())
            return None
        P['vfNote'] = vfNote

        def vfParam(it_, args, fn):
            name = args[0].decode()
            params = getattr(self, 'params', {})
            if name not in params:
                raise Unsupported('harness parameter %s not supplied' % name)
            v = params[name]
            base = fn['name'].rsplit('.', 1)[-1]
            if base == 'vfParamStr':
                v = v.encode('utf-8') if isinstance(v, str) else bytes(v)
            it.path.nondet.append((base, name, v))
            return v
        P['vfParamStr'] = vfParam
        P['vfParamInt'] = vfParam

        def vfUF(it_, args, fn):
            # uninterpreted function of int arguments: one z3 Function per (name, arity, result sort)
            name = args[0].decode()
            sl = args[1]
            els = [] if sl.arr is None else list(sl.arr.a[sl.off:sl.off + sl.len])
            base = fn['name'].rsplit('.', 1)[-1]
            rs = z3.BoolSort() if base == 'vfUFBool' else z3.BitVecSort(64)
            key = (name, len(els), base)
            f = self.ufs.get(key)
            if f is None:
                f = z3.Function('uf_%s_%d' % (name, len(els)), *([z3.BitVecSort(64)] * len(els) + [rs])) if els else z3.Const('uf_%s_0' % name, rs)
                self.ufs[key] = f
            r = f(*[e if is_sym(e) else z3.BitVecVal(e, 64) for e in els]) if els else f
            it.path.nondet.append((base, name, r))
            return r
        P['vfUFInt'] = vfUF
        P['vfUFBool'] = vfUF

        def vfBytes(it_, args, fn):
            name = args[0].decode(); n = args[1]
            bs = [it.fresh('%s[%d]' % (name, k), z3.BitVecSort(8)) for k in range(n)]
            v = SymStr(bs) if bs else b''
            it.path.nondet.append(('vfBytes', name, v))
            return v
        P['vfBytes'] = vfBytes

        def vfChoiceStr(it_, args, fn):
            name = args[0].decode()
            sl = args[1]
            opts = [] if sl.arr is None else list(sl.arr.a[sl.off:sl.off + sl.len])
            if len(opts) == 1:
                it.path.nondet.append(('vfChoiceStr', name, 0))
                return opts[0]
            idx = it.fresh(name, z3.BitVecSort(64))
            it.add(z3.And(idx >= 0, idx < len(opts)))
            it.path.nondet.append(('vfChoiceStr', name, idx))
            return ChoiceStr(opts, idx)
        P['vfChoiceStr'] = vfChoiceStr

        def vfAllocCap(it_, args, fn):
            # allocation oracle: from now on a make([]T, n) whose symbolic length can exceed cap is a violation of id
            it.alloc_cap = (args[0], args[1].decode())
            return None
        P['vfAllocCap'] = vfAllocCap
        def alloc_violation(aid):
            self.record_violation(aid, it.solver.model())
        it.alloc_violation = alloc_violation

        def vfMapOrder(it_, args, fn):
            # every map iteration (range, reflect MapKeys) takes its order from a symbolic choice among
            # identity / reversed / rotated by one (order independence is decided over these choices)
            if args[0] is True:
                def hook(it__, m, items):
                    if len(items) < 2: return items
                    k = it.choose(3, 'maporder')   # not a native input: Go picks its own order
                    if k == 1: return items[::-1]
                    if k == 2: return items[1:] + items[:1]
                    return items
                it.map_order_hook = hook
            else:
                it.map_order_hook = None
            return None
        P['vfMapOrder'] = vfMapOrder

        def vfNative(it_, args, fn):
            return False
        P['vfNative'] = vfNative

        def reach(vals):
            seen = {}
            stack = list(vals)
            while stack:
                v = stack.pop()
                if v is None or isinstance(v, (int, bytes, bool, str)) or is_sym(v):
                    continue
                if isinstance(v, Iface): stack.append(v.v); continue
                if isinstance(v, Ptr): stack.append(v.base); continue
                if isinstance(v, SliceV):
                    if v.arr is not None: stack.append(v.arr)
                    continue
                if isinstance(v, Closure): stack.extend(v.binds or ()); continue
                if isinstance(v, (tuple, list)): stack.extend(v); continue
                if id(v) in seen: continue
                if isinstance(v, Box): seen[id(v)] = v; stack.append(v.v)
                elif isinstance(v, StructV): seen[id(v)] = v; stack.extend(v.f)
                elif isinstance(v, ArrayV):
                    seen[id(v)] = v
                    if isinstance(v.a, list): stack.extend(v.a)
                elif isinstance(v, MapV):
                    seen[id(v)] = v
                    for kk, vv in list(v.d.values()) + [tuple(x) for x in v.sym]: stack.append(kk); stack.append(vv)
                elif hasattr(v, 'v') and hasattr(v, 'tid'):   # reflect value models
                    stack.append(v.v)
            return seen

        def vfSharedBegin(it_, args, fn):
            sl = args[0]
            vals = [] if sl.arr is None else list(sl.arr.a[sl.off:sl.off + sl.len])
            shared = reach(vals)
            # everything reachable from package-level variables of the code under test (harness globals excluded)
            shared.update(reach([b for g, b in it.globals.items() if '.vf' not in str(getattr(b, 'tag', ''))]))
            def hook(it__, p, v):
                b = p.base
                tag = getattr(b, 'tag', None)
                is_global = isinstance(tag, str) and tag.startswith('global:') and '.vf' not in tag
                if id(b) in shared or is_global:
                    r = it.check()
                    if r == z3.sat:
                        it.path.events.append('write to %s' % (tag or type(b).__name__))
                        self.record_violation('c08.unsynchronised-write-to-shared-state', it.solver.model())
            it.store_hook = hook
            return None
        P['vfSharedBegin'] = vfSharedBegin

        def vfSharedEnd(it_, args, fn):
            it.store_hook = None
            return None
        P['vfSharedEnd'] = vfSharedEnd

        def vfIsSym(it_, args, fn):
            return True
        P['vfSymbolic'] = vfIsSym

    def cross_check(self, aid, c):
        """re-decide a discharged query (path condition and negated assertion) with the two other installed solvers"""
        if self.cross_budget <= 0 or aid in self.cross_seen:
            return
        self.cross_seen.add(aid)
        self.cross_budget -= 1
        import tempfile
        s2 = z3.Solver()
        for pc in self.it.path.pc: s2.add(pc)
        s2.add(z3.Not(c))
        txt = s2.to_smt2()
        res = {}
        with tempfile.NamedTemporaryFile('w', suffix='.smt2', delete=False) as f:
            f.write(txt); fn = f.name
        try:
            for name, cmd in (('z3-4.8.12', ['/usr/bin/z3', '-T:30', fn]), ('cvc5-1.0', ['cvc5', '--tlimit=30000', fn])):
                try:
                    out = subprocess.run(cmd, capture_output=True, text=True, timeout=60).stdout
                    first = (out.strip().splitlines() or ['?'])[0]
                    res[name] = 'error' if '(error' in out else first
                except Exception as e:
                    res[name] = 'failed-to-run'
        finally:
            os.remove(fn)
        self.cross.append({'assert': aid, 'harness': self.harness, 'z3py': 'unsat', **res})

    def note_sample(self, aid, how, c=None):
        if len(self.samples) < 12 and not any(s['assert'] == aid for s in self.samples):
            s = {'assert': aid, 'harness': self.harness, 'result': how, 'path_decisions': list(self.it.path.taken)[:40]}
            if c is not None:
                txt = str(c)
                s['negated_query_unsat'] = txt[:400]
            self.samples.append(s)

    def record_violation(self, aid, m):
        it = self.it
        it.stats.asserts_failed += 1
        nd = []
        for fn, name, v in it.path.nondet:
            nd.append({'fn': fn, 'name': name, 'value': model_value(m, v)})
        key = (aid, self.harness)
        # keep at most a few violations per assertion id
        n = sum(1 for v in self.violations if (v.aid, v.harness) == key)
        if n < 5:
            self.violations.append(Violation(aid, self.harness, nd, list(it.path.taken), '; '.join(it.path.events)))

    # ---------------------------------------------------------------- exploration
    def run(self, harness_fn, init_pkgs=(), prefixes=None, setup=None):
        it = self.it
        fn = it.funcs.get(harness_fn)
        if fn is None:
            print('harness not found: ' + harness_fn, file=sys.stderr)
            raise SystemExit(2)
        self.harness = harness_fn.rsplit('.', 1)[-1]
        pending = [list(p) for p in prefixes] if prefixes is not None else [[]]
        st = it.stats
        npaths = 0
        while pending:
            prefix = pending.pop()
            npaths += 1
            if npaths > self.max_paths:
                self.inconclusive.append(('path-limit', self.harness))
                break
            if self.split_after and npaths > self.split_after:
                # hand the unexplored subtrees back to the runner (work splitting over processes)
                pending.append(prefix)
                self.leftover = [list(p) for p in pending]
                break
            path = Path(prefix, pending)
            it.path = path
            it.frame = None
            it.path_instr0 = st.instrs
            it.alloc_cap = None
            it.map_order_hook = None
            it.store_hook = None
            it.syncmaps = {}
            it.solver.push()
            outcome = 'ok'
            try:
                it.init_globals()
                if setup is not None:
                    setup(self)
                path_nondet_start = len(path.nondet)
                it.record_funcs = False
                it.run_inits(init_pkgs)
                it.record_funcs = True
                it.call(fn, [])
            except PathEnd as e:
                outcome = 'end:' + e.why
            except GoPanic as p:
                outcome = 'panic'
                msg = it.fmt_value(p.value)
                if self.uncaught_panic_is_violation:
                    r = it.check()
                    if r == z3.sat:
                        path.events.append('uncaught panic: ' + msg)
                        self.record_violation('uncaught-panic', it.solver.model())
            except Unsupported as e:
                outcome = 'unsupported'
                k = str(e)[:200]
                st.unsupported[k] = st.unsupported.get(k, 0) + 1
            except UnwindLimit as e:
                outcome = 'unwind'
                st.unwind += 1
            except z3.Z3Exception as e:
                outcome = 'unsupported'
                k = 'z3: ' + str(e)[:200]
                st.unsupported[k] = st.unsupported.get(k, 0) + 1
            finally:
                it.solver.pop()
            if outcome == 'ok' and len(self.witnesses) < self.max_witnesses and path.pc is not None:
                # translator validation / vacuity witness: one concrete input of a completed path, to be replayed natively
                # (the native run must pass every assertion and reach the same markers)
                try:
                    it.solver.push()
                    for c in path.pc: it.solver.add(c)
                    if it.check() == z3.sat:
                        m = it.solver.model()
                        self.witnesses.append({'harness': self.harness, 'assert': 'witness', 'reached': list(path.reached),
                                               'inputs': [{'fn': f, 'name': n, 'value': model_value(m, v)} for f, n, v in path.nondet], 'decisions': [], 'note': 'witness of a completed path'})
                    it.solver.pop()
                except Exception:
                    pass
            if path.unknown_branch:
                self.inconclusive.append(('unknown-branch', self.harness))
            st.paths += 1
            self.outcomes[outcome] = self.outcomes.get(outcome, 0) + 1
            if os.environ.get('VERIF_DEBUG'):
                print('path %d %s taken=%s solver_s=%.2f instrs=%d pending=%d' % (st.paths, outcome, path.taken[:12], st.solver_s, st.instrs, len(pending)), file=sys.stderr)
        return self

    def summary(self):
        st = self.it.stats
        return {
            'paths': st.paths, 'instrs': st.instrs, 'outcomes': self.outcomes,
            'queries': {'sat': st.q_sat, 'unsat': st.q_unsat, 'unknown': st.q_unknown}, 'solver_s': round(st.solver_s, 3),
            'asserts_proved': st.asserts_proved, 'asserts_failed': st.asserts_failed,
            'unsupported': st.unsupported, 'unwind': st.unwind, 'reach': st.reach,
            'violations': [v.to_json() for v in self.violations], 'inconclusive': self.inconclusive[:20],
            'leftover': self.leftover, 'witnesses': self.witnesses, 'cross': self.cross, 'functions': sorted(st.funcs), 'samples': self.samples, 'assumed_away': st.assumed_away, 'cuts': st.cuts,
        }


def run_harness(args):
    """worker entry: (harness full name, init pkgs, prefixes, opts) -> summary dict"""
    name, init_pkgs, prefixes, opts = args
    try:
        prog, key = load_program()
        ex = Explorer(prog, opts.get('timeout_ms', 60000))
        if 'max_paths' in opts: ex.max_paths = opts['max_paths']
        if 'instr_budget' in opts: ex.it.instr_budget = opts['instr_budget']
        if 'max_loop' in opts: ex.it.max_loop = opts['max_loop']
        if opts.get('panic_ok'): ex.uncaught_panic_is_violation = False
        ex.params = opts.get('params', {})
        setup = None
        if opts.get('setup'):
            import importlib
            modname, fname = opts['setup'].split(':')
            setup = getattr(importlib.import_module(modname), fname)
            if opts.get('setup_once', True):
                setup(ex); setup = None
        t = time.time()
        ex.run(name, init_pkgs, prefixes, setup)
        s = ex.summary()
        s['wall_s'] = round(time.time() - t, 3)
        s['harness'] = name
        return s
    except SystemExit:
        raise
    except Exception as e:
        return {'harness': name, 'error': traceback.format_exc()}


if __name__ == '__main__':
    # ad-hoc: python engine.py <pkg-rel> <HarnessName>
    pkg, h = sys.argv[1], sys.argv[2]
    full = MOD + ('/' + pkg if pkg != '.' else '') + '.' + h
    init = [MOD + ('/' + pkg if pkg != '.' else '')]
    opts = {}
    if len(sys.argv) > 3:
        opts = json.loads(sys.argv[3])
    s = run_harness((full, init, opts.get('prefixes'), opts))
    fns = s.pop('functions', None)
    s.pop('samples', None); s.pop('leftover', None)
    vs = s.pop('violations', [])
    print(json.dumps(s, default=str))
    seen = set()
    for v in vs:
        if v['assert'] in seen: continue
        seen.add(v['assert'])
        def show(i):
            x = i['value']
            if isinstance(x, dict) and 'str' in x: x = bytes(x['str'])
            return (i['name'], x)
        print('VIOL', v['assert'], [show(i) for i in v['inputs']][:20], v['note'][:200])
