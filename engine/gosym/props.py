# Per-property job lists (harnesses, shards, bounds) for the quick and thorough tiers.
from engine import MOD

SEED = [0]

VM = MOD + '/vm'


def H(pkg, name):
    return MOD + ('/' + pkg if pkg != '.' else '') + '.' + name


def P(pkg):
    return [MOD + ('/' + pkg if pkg != '.' else '')]


COMMON_ASSUME = [
    'go/ssa (x/tools v0.29.0) translation of the current /repo source is faithful; the gosym interpreter implements Go semantics for the instruction kinds it supports (anything else ends the path as UNSUPPORTED, reported as inconclusive)',
    'z3 4.15/5.x (z3-solver wheel) decides the queries; unknown/timeouts are reported as inconclusive, never as success',
    'stdlib stubs (reflect model, fmt, strings, strconv, regexp and math.Pow as listed in DESIGN.md section 2.5) follow their documentation',
]


def c14(tier):
    jobs = []
    for op in range(10):
        for ka in range(12):
            jobs.append((H('vm', 'HarnessC14Binary'), P('vm'), [[op, ka]], {'timeout_ms': 60000}))
    for which in range(5):
        for ka in range(12):
            jobs.append((H('vm', 'HarnessC14Unary'), P('vm'), [[which, ka]], {'timeout_ms': 60000}))
    for a in range(12):
        for b in range(12):
            jobs.append((H('.', 'HarnessC14Kind'), P('.'), None, {'params': {'a': a, 'b': b}, 'label': 'kind %d x %d' % (a, b)}))
    meta = {
        'explanation': 'every generated helper (equal, less, more, lessOrEqual, moreOrEqual, add, subtract, multiply, divide, modulo) x every ordered pair of the 12 numeric kinds, operand VALUES symbolic (bit-vectors of the Go width / IEEE floats), compared by z3 with the promotion rule written independently in the harness (convert lower rank to higher rank with Go conversion semantics, apply the Go operator at that kind); plus negate, toInt, toInt64, toFloat64, exponent; and (package expr) for every ordered kind pair and operator the dynamic kind of the result of the compiled expression equals the type checker.Check reports',
        'bounds': {'values': 'none (all values of every kind)', 'kinds': '12x12 ordered pairs x 10 operators + unary', 'float->int': 'excluded (implementation-defined out of range)', 'math.Pow': 'uninterpreted function'},
        'outside': ['float to int conversions in toInt/toInt64', 'the value of math.Pow itself'],
        'assumptions': COMMON_ASSUME,
        'must_reach': ['c14.binary', 'c14.negate', 'c14.toInt', 'c14.toInt64', 'c14.toFloat64', 'c14.exponent', 'c14.kind.ran'],
    }
    return jobs, meta


def c06(tier):
    jobs = [(H('vm', 'HarnessC06MakeRange'), P('vm'), None, {}), (H('optimizer', 'HarnessC06ConstRange'), P('optimizer'), None, {})]
    kmax = 2 if tier == 'quick' else 3
    for k in range(kmax):
        import itertools
        for kinds in itertools.product(range(3), repeat=k + 1):
            jobs.append((H('vm', 'HarnessC06Seq'), P('vm'), [[k] + list(kinds)], {'split_after': 150, 'job_timeout': 2400} if tier != 'quick' else {}))
    meta = {
        'explanation': 'programs assembled from the allocating instructions (OpRange with symbolic 64-bit bounds, OpArray and OpMap literals of 0..3 elements) in every order, k=%d..%d constructs per run, run on the real VM.Run dispatch loop under a symbolic budget; z3 decides for all bounds and budgets that the run succeeds iff the number of elements created (reference: len of each collection, computed in unsigned arithmetic) is below the budget, and that the only failure is the budget error; makeRange contract (len and elements) for all bounds with <= 8 elements; constRange.Exit on a literal range with symbolic bounds: the constant has the elements of the range and an allocation oracle reports any make([]int, n) whose n can exceed 10^6' % (1, kmax),
        'bounds': {'constructs per run': kmax, 'range bounds': 'all int64 values', 'budget': '1..2^20 (default 10^6 is inside)', 'admitted range size on explored paths': '<= 8 elements (makeRange loop unrolled); larger ranges only on refused paths', 'literals': '0..3 elements'},
        'outside': ['collections created by map/filter builtins (same OpArray accounting, exercised in C18/C01 templates)', 'budgets above 2^20', 'collections returned by environment functions'],
        'assumptions': COMMON_ASSUME,
        'must_reach': ['c06.seq.ok', 'c06.seq.err', 'c06.makerange', 'c06.constrange.ran'],
    }
    return jobs, meta


def c07(tier):
    import itertools
    jobs = []
    for k in range(2):
        for kinds in itertools.product(range(3), repeat=k + 1):
            jobs.append((H('vm', 'HarnessC07Prologue'), P('vm'), [[k] + list(kinds)], {}))
    for first in range(3):
        for kinds in itertools.product(range(3), repeat=3):
            if first == 1 and (kinds[0] or kinds[1]): continue
            if first == 0 and kinds[1]: continue
            jobs.append((H('vm', 'HarnessC07History'), P('vm'), [[first] + list(kinds)], {}))
    srcs = ['A + B', 'count(Xs, {# > A})', 'A / B', '[A, B, A % B]', 'len(0..A)', 'map(Xs, {# / A})', 'M.a', 'P ? A : B']
    for s1 in srcs:
        for s2 in (srcs if tier != 'quick' else srcs[:4]):
            jobs.append((H('.', 'HarnessC07Programs'), P('.'), None, {'params': {'src1': s1, 'src2': s2}, 'label': '%s ; %s' % (s1, s2), 'job_timeout': 600}))
    meta = {
        'explanation': 'program level: two template programs compiled by the real pipeline (Env(*struct), Env(map) or no Env, chosen symbolically) run one after the other on one vm.VM with environments of symbolically chosen form (struct pointer, map, nil) and symbolic member values, second run compared with a fresh VM; and: VM.Run executed from a VM value whose every field is symbolic/arbitrary (ip, pp, memory, limit, stale stack and scopes of length <= 2, stale bytecode and constants) and from a zero VM on the same allocating program under a symbolic budget: z3 decides that outcome and result are equal for all field values; plus two-run histories on one VM (first run succeeding, failing midway inside an open scope, or allocating) compared with a fresh VM',
        'bounds': {'stale stack/scopes': 'length <= 2', 'programs': '1..2 allocating constructs (symbolic range bounds, literals of 0..3 elements)', 'budget': '1..2^20', 'history length': 2},
        'outside': ['debug-mode VMs (debug/step/curr fields)', 'histories longer than 2 runs other than through the arbitrary pre-state harness'],
        'assumptions': COMMON_ASSUME + ['pre-state memory counter is >= 0 (what real histories produce when C06 holds)'],
        'must_reach': ['c07.prologue.ran', 'c07.history.ran', 'c07.programs.ran'],
    }
    return jobs, meta


def c10(tier):
    jobs = []
    for kind in range(22):
        jobs.append((H('ast', 'HarnessC10Walk'), P('ast'), [[kind, sub] for sub in range(23)], {}))
    for src, frm, to, want in [('A == B', 'B', 'F', 'A == F'), ('A - B', 'B', 'S', 'A - S'), ('A + B', 'B', 'F', 'A + F'), ('FnF(B)', 'B', 'F', 'FnF(F)'), ('Fn(B)', 'B', 'F', 'Fn(F)'),
                               ('Xs[A:B]', 'B', 'F', 'Xs[A:F]'), ('P ? A : B', 'B', 'S', 'P ? A : S'), ('map(Xs, {# + B})', 'B', 'F', 'map(Xs, {# + F})'), ('Zz + A', 'Zz', 'B', 'B + A'),
                               ('A in Xs', 'Xs', 'M', 'A in M'), ('S == T', 'T', 'A', 'S == A'), ('(A + B)[0:1]', 'B', 'Xs', '(A + Xs)[0:1]'), ('Xs[B:][0] == A', 'A', 'F', 'Xs[B:][0] == F'),
                               ('count(Xs, {# == B})', 'B', 'F', 'count(Xs, {# == F})'), ('len(Xs) == B', 'B', 'I64', 'len(Xs) == I64'), ('{a: B}.a == A', 'B', 'F', '{a: F}.a == A')]:
        jobs.append((H('.', 'HarnessC10Patched'), P('.'), None, {'params': {'src': src, 'from': frm, 'to': to, 'want': want}, 'label': 'patched %s [%s->%s]' % (src, frm, to)}))
    meta = {
        'explanation': 'program level: compiling a source with a Patch visitor that renames an identifier (changing its static type) must give the same verdict and, for all symbolic environment values, the same results as compiling the substituted source (the patched tree is what is re-checked and compiled). AST level: ast.Walk/walker.walk/ast.Patch executed symbolically on a root node of every kind (22) with a composite of every kind in a symbolically chosen child slot (depth 2), child slices of symbolic length 0..3, optional children symbolically nil; a recording visitor logs (event, node identity) and replaces the node at a symbolic Exit event index; compared with the event list derived from the struct declarations (field order) and with the slot contents after the walk',
        'bounds': {'depth': 2, 'child slices': '0..3 elements', 'node kinds': '22 x (leaf children | one composite child of each of 22 kinds in each slot)', 'patch position': 'every Exit event (symbolic index)'},
        'outside': ['trees deeper than 2 (the recursion is the same function)', 'replacement at Enter events', 'visitors that replace a node by a subtree that is then traversed'],
        'assumptions': COMMON_ASSUME + ['the child-slot table of the harness (vfTree.build) lists every Node and []Node field of every node struct in declaration order'],
        'must_reach': ['c10.walked', 'c10.patched', 'c10.patched.compiled'],
    }
    return jobs, meta


def c01(tier):
    import templates
    if tier == 'quick':
        base = templates.gen(1)
        more = [s for s in templates.gen(2, quick=True) if s not in base]
        srcs = base + more[SEED[0] % 3::3]   # a third of the two-operator templates per run, rotated by VERIF_SEED
    else:
        srcs = templates.gen(3)
    jobs = []
    for n, src in enumerate(srcs):
        opt = 1 if tier == 'quick' else n % 2
        jobs.append((H('.', 'HarnessC01Template'), P('.'), None, {'params': {'src': src, 'optimize': 1, 'maxlen': 2 if (tier == 'quick' or 'Xss' in src) else 3}, 'label': src, 'job_timeout': 120 if tier == 'quick' else 900}))
        if tier != 'quick':
            jobs.append((H('.', 'HarnessC01Template'), P('.'), None, {'params': {'src': src, 'optimize': 0, 'maxlen': 2}, 'label': src}))
    meta = {
        'explanation': 'program layer (M2): each template source of a typed grammar over the harness environment (%d templates: every production with atom operands, every production with every production in each operand slot%s) is parsed, checked, optimized and compiled by the REAL pipeline inside the symbolic interpreter, then the real VM runs it on an environment whose member VALUES are symbolic (ints, bools, floats, choice strings, []int of symbolic length with symbolic elements, map with symbolic presence of keys, nil-able pointer chain, uninterpreted environment functions with a call log); z3 decides for all environment values that failure, result and call log equal those of a reference evaluator written from the language definition' % (len(srcs), '' if tier == 'quick' else ', nested closure/conditional family'),
        'bounds': {'templates': len(srcs), 'node budget': '2 operators (quick: representative inner productions; thorough: all) + nested family', 'arrays': 'length <= %d' % (2 if tier == 'quick' else 3), 'strings': 'choice of 4', 'map': 'keys subset of {a,b}', 'pointer chain': 'depth <= 2'},
        'outside': ['expressions above the node budget (covered compositionally by the scheme/step checks of C05 only)', 'strings beyond the 4 choices', 'float members other than F', 'methods on members', 'matches with non-literal patterns'],
        'assumptions': COMMON_ASSUME + ['the reference evaluator (harness/zz_verif_ref.go) states the language definition; where the definition is silent it follows Go semantics of the operand types'],
        'must_reach': ['c01.ran', 'c01.both-succeed'],
    }
    return jobs, meta


def c02(tier):
    import templates
    jobs = []
    for src in templates.C02_TEMPLATES:
        for symlit in (0, 1):
            if symlit and tier == 'quick' and sum(ch.isdigit() for ch in src) > 3:
                continue   # many symbolic literals: thorough tier only
            jobs.append((H('.', 'HarnessC02Template'), P('.'), None, {'params': {'src': src, 'symlit': symlit, 'maxlen': 2}, 'label': '%s [symlit=%d]' % (src, symlit), 'job_timeout': 150 if tier == 'quick' else 900}))
    for src in templates.C02_CONSTEXPR:
        for symlit in (0, 1):
            jobs.append((H('.', 'HarnessC02ConstExpr'), P('.'), None, {'params': {'src': src, 'symlit': symlit}, 'label': 'constexpr %s [symlit=%d]' % (src, symlit), 'job_timeout': 300}))
    if tier != 'quick':
        # the C01 templates in which a literal occurs, compiled twice
        for src in templates.gen(2):
            plain = src.replace('I64', '').replace('U8', '').replace('I8', '')
            if any(ch.isdigit() for ch in plain) or '[' in src or '..' in src:
                # more than 4 literals: concrete literals only (each symbolic literal multiplies the paths)
                symlit = 1 if sum(ch.isdigit() for ch in plain) <= 4 else 0
                jobs.append((H('.', 'HarnessC02Template'), P('.'), None, {'params': {'src': src, 'symlit': symlit, 'maxlen': 2}, 'label': '%s [symlit=%d]' % (src, symlit), 'job_timeout': 900}))
    meta = {
        'explanation': 'each source in which a rewrite can fire (constant arithmetic at depth and in re-typed argument positions, literal arrays, membership in literal arrays and literal ranges with left operands of every static type, constant ranges) is compiled by the real pipeline with Optimize(true) and Optimize(false); integer literals are made SYMBOLIC by a Patch visitor (same values in both compilations) so fold/inArray/inRange/constRange compute on symbolic literal values; both programs run on the real VM with a symbolic environment; z3 decides both-fail-or-equal-results for all literal and environment values, and that the optimizer rejects only constant division/modulo by zero',
        'bounds': {'templates': len(jobs), 'literal values': 'all int64 (in -2..4 where the template contains a range or **)', 'arrays': 'length <= 2', 'environment': 'as C01'},
        'outside': ['ConstExpr functions with side effects (the property says pure)', 'the 1000/100-iteration fix-point limits of Optimize', 'string literal contents (concrete)'],
        'assumptions': COMMON_ASSUME,
        'must_reach': ['c02.ran', 'c02.both-succeed', 'c02.rejected-by-optimizer', 'c02.constexpr.ran', 'c02.constexpr.failure-moved-to-compile-time'],
    }
    return jobs, meta


def c15(tier):
    import templates
    srcs = templates.gen(1) if tier == 'quick' else templates.gen(2, quick=True)
    jobs = [(H('.', 'HarnessC15Template'), P('.'), None, {'params': {'src': src, 'maxlen': 2}, 'label': src, 'job_timeout': 150 if tier == 'quick' else 900}) for src in srcs]
    meta = {
        'explanation': 'each template is compiled by the real pipeline in seven modes (Env(*struct), Env(struct), Env(map[string]interface{}), no Env run on struct and on map, AllowUndefinedVariables, Optimize(false)) and evaluated with Eval; every variant that compiles and runs successfully is run on the same symbolic environment (struct, pointer or map form of the same members) and z3 decides that all successful results are equal for all environment values',
        'bounds': {'templates': len(srcs), 'arrays': 'length <= 2', 'environment': 'as C01'},
        'outside': ['named scalar types as members', 'templates above the node budget'],
        'assumptions': COMMON_ASSUME,
        'must_reach': ['c15.ran', 'c15.compared'],
    }
    return jobs, meta


def c18(tier):
    import templates
    ids = templates.c18(tier == 'quick', SEED[0])
    jobs = []
    for l, r, m in ids:
        for opt in ((1,) if tier == 'quick' else (1, 0)):
            jobs.append((H('.', 'HarnessC18Identity'), P('.'), None, {'params': {'lhs': l, 'rhs': r, 'mode': m, 'optimize': opt, 'maxlen': 2 if tier == 'quick' else 3}, 'label': '%s ~ %s [mode %d opt %d]' % (l, r, m, opt), 'job_timeout': 150 if tier == 'quick' else 900}))
    meta = {
        'explanation': 'both sides of each defining identity (all/none/any/one/count/filter/map, membership in an integer range, slicing partition) are compiled by the real pipeline as two programs and as one expression and run on the real VM with arrays of symbolic length and content (env slices, run-time ranges, literals, results of other builtins) and UNINTERPRETED predicates/mappers (one query covers every predicate); nested closures are compared with the reference evaluator including the call log (the closure sees the element of its own innermost collection)',
        'bounds': {'identities x collections x predicates': len(ids), 'arrays': 'length <= %d' % (2 if tier == 'quick' else 3), 'nesting depth': 3, 'range bounds': '-2..4'},
        'outside': ['arrays longer than the bound', 'predicates with side effects'],
        'assumptions': COMMON_ASSUME,
        'must_reach': ['c18.ran'],
    }
    return jobs, meta


def c12(tier):
    q = tier == 'quick'
    jobs = []
    for n in range(0, 3 if q else 4):
        for mode in (0, 1, 2, 3):
            if mode >= 2 and n == 0:
                continue
            jobs.append((H('parser/lexer', 'HarnessC12String'), P('parser/lexer'), None, {'params': {'n': n, 'mode': mode}, 'label': 'string n=%d mode=%d' % (n, mode), 'split_after': 30, 'job_timeout': 1500}))
    for form in range(6):
        for n in range(1, 3 if q else 4):
            jobs.append((H('parser', 'HarnessC12Number'), P('parser'), None, {'params': {'form': form, 'n': n}, 'label': 'number form=%d n=%d' % (form, n), 'split_after': 30, 'job_timeout': 1500}))
    for n in (16, 17, 18):
        jobs.append((H('parser', 'HarnessC12Number'), P('parser'), None, {'params': {'form': 6, 'n': n}, 'label': 'number form=6 (long decimal) n=%d' % n, 'split_after': 30, 'job_timeout': 1500}))
    import random, itertools
    NT = 16
    rnd = random.Random(SEED[0])
    layouts = [(a,) for a in range(NT)] + [(a, b) for a in range(NT) for b in range(NT)]
    triples = list(itertools.product(range(NT), repeat=3))
    rnd.shuffle(triples)
    layouts += triples[:12 if q else 300]
    if q:
        pairs = [l for l in layouts if len(l) == 2]
        rnd.shuffle(pairs)
        # always: "not" before identifiers that start with "in", the two-word operator next to identifiers and numbers
        must = [(12, 13), (12, 15), (12, 0), (4, 0), (0, 4), (12, 13, 0), (0, 4, 13), (2, 5, 2), (10, 5, 10), (6, 0), (7, 11)]
        layouts = [l for l in layouts if len(l) != 2] + [l for l in must if l not in layouts] + [l for l in pairs[:40] if l not in must]
    # the words "not" (12) and "in" (14) next to each other ARE the operator "not in": not a two-token layout
    layouts = [l for l in layouts if not any(a == 12 and b == 14 for a, b in zip(l, l[1:]))]
    for lay in layouts:
        prm = {'k': len(lay), 'gap': 2 if (len(lay) < 3 and 4 not in lay) else 1}
        for i, t in enumerate(lay):
            prm['t%d' % i] = t
        jobs.append((H('parser/lexer', 'HarnessC12Positions'), P('parser/lexer'), None, {'params': prm, 'label': 'positions tokens=%s gap<=%d' % (list(lay), prm['gap']), 'job_timeout': 600}))
    meta = {
        'explanation': 'real lexer (Lex and all state functions, scanString/scanEscape/scanNumber, unescape/unescapeChar) and the Number case of the real parser executed symbolically: (a) a string value of n SYMBOLIC bytes (valid UTF-8, runes < U+0800, control characters/quotes/backslashes included) spelled by a reference escaper (named escapes, or every rune as \\uXXXX; both quote styles) must lex back to exactly that value; (b) number spellings of each documented form with SYMBOLIC digits (decimal with separators, 0x/0X hex incl. digits e/E, floats with fraction/exponent, leading dot, range look-ahead) must be one token classified as the form demands (exact symbolic model of ParseInt, ParseFloat as uninterpreted function of the spelling); (c) token layouts with SYMBOLIC whitespace/line breaks and multi-byte characters: every token Location is the position of its first character',
        'bounds': {'string bytes': '<= %d' % (2 if q else 3), 'digits per group': '<= %d' % (2 if q else 3), 'layout': 'up to %d tokens, gaps of <= 2 symbolic whitespace bytes' % (3 if q else 4), 'runes': '< U+0800 (3- and 4-byte runes are cut and counted)'},
        'outside': ['runes >= U+0800 (non-BMP included)', 'the numeric value computed by strconv.ParseFloat', 'octal/binary prefixes'],
        'assumptions': COMMON_ASSUME + ['unicode.IsSpace/IsLetter/IsDigit below U+0800 follow the table generated from the real unicode package at setup'],
        'must_reach': ['c12.string.lexed', 'c12.number.parsed', 'c12.pos.lexed'],
    }
    return jobs, meta


def c04(tier):
    import templates
    q = tier == 'quick'
    jobs = []
    for n in range(0, 3 if q else 4):
        jobs.append((H('parser/lexer', 'HarnessC04Lex'), P('parser/lexer'), None, {'params': {'n': n}, 'label': 'lex n=%d' % n, 'split_after': 40, 'job_timeout': 3000}))
    for n in range(1, 3 if q else 4):
        jobs.append((H('parser/lexer', 'HarnessC04LexEscape'), P('parser/lexer'), None, {'params': {'n': n}, 'label': 'lex escape n=%d' % n, 'split_after': 40, 'job_timeout': 3000}))
    for n in range(0, 3 if q else 4):
        jobs.append((H('parser', 'HarnessC04Parse'), P('parser'), None, {'params': {'n': n}, 'label': 'parse bytes n=%d' % n, 'split_after': 40, 'job_timeout': 3000}))
    for k in range(1, 3 if q else 4):
        jobs.append((H('parser', 'HarnessC04ParseTokens'), P('parser'), None, {'params': {'k': k}, 'label': 'parse tokens k=%d' % k, 'split_after': 40, 'job_timeout': 3000}))
    srcs = templates.C04_SOURCES
    if q:
        srcs = srcs[SEED[0] % 3::3]
    for src in srcs:
        jobs.append((H('.', 'HarnessC04Compile'), P('.'), None, {'params': {'src': src}, 'label': 'compile ' + src, 'split_after': 200, 'job_timeout': 3000}))
    meta = {
        'explanation': 'a panic or non-termination is a path outcome of the symbolic executor: (1) Lex on a buffer of n fully SYMBOLIC bytes (valid and invalid UTF-8), and on quoted literals whose body is a backslash followed by up to 2-3 symbolic bytes (every complete and truncated escape, terminated or not); (2) Parse on n symbolic bytes and on k symbolic choices from a 35-token alphabet; (3) expr.Compile on grammatical seeds (well- and ill-typed) under every combination of options chosen symbolically (Env struct/map/none, AllowUndefinedVariables, Optimize, AsBool/AsInt64/AsFloat64, Operator, ConstExpr, four node-replacing Patch visitors) followed by Run and Eval on an environment with nil members and a panicking function; asserted: no path ends in an uncaught panic, every loop finishes within the unwinding bound, error => nil program/value, no error => usable program',
        'bounds': {'lexer bytes': '<= %d' % (2 if q else 3), 'parser bytes': '<= %d' % (2 if q else 3), 'parser tokens': '<= %d of 35' % (2 if q else 3), 'seeds': len(srcs), 'option combinations': 'all (3 env x 2 x 2 x 4 x 2 x 2 x 5)'},
        'outside': ['inputs longer than the bound (64 KiB is far outside)', 'stack exhaustion on deep nesting', 'time complexity'],
        'assumptions': COMMON_ASSUME,
        'must_reach': ['c04.lex.returned', 'c04.lexescape.returned', 'c04.parse.returned', 'c04.parsetokens.returned', 'c04.compile.returned', 'c04.run.returned'],
    }
    return jobs, meta


def c11_shapes(n):
    """all tree shapes with exactly n operator nodes over binary, unary, conditional, member access and index"""
    if n == 0:
        return ['L']
    out = []
    for a in range(n):      # unary / member
        pass
    for s in c11_shapes(n - 1):
        out.append('U(%s)' % s)
        out.append('M(%s)' % s)
    for i in range(n):
        for l in c11_shapes(i):
            for r in c11_shapes(n - 1 - i):
                out.append('B(%s,%s)' % (l, r))
                out.append('I(%s,%s)' % (l, r))
    for i in range(n):
        for j in range(n - i):
            for a in c11_shapes(i):
                for b in c11_shapes(j):
                    for c in c11_shapes(n - 1 - i - j):
                        out.append('C(%s,%s,%s)' % (a, b, c))
    return out


def c11(tier):
    import random
    q = tier == 'quick'
    shapes = c11_shapes(1) + c11_shapes(2)
    s3 = [s for s in c11_shapes(3) if s.count('B') + s.count('U') >= 2]
    if q:
        random.Random(SEED[0]).shuffle(s3)
        s3 = s3[:40]
    shapes += s3
    jobs = []
    for sh in shapes:
        for red in (0, 1):
            jobs.append((H('parser', 'HarnessC11RoundTrip'), P('parser'), None, {'params': {'shape': sh, 'redundant': red}, 'label': '%s redundant=%d' % (sh, red), 'job_timeout': 900}))
    for t in ['a^not^in^b', 'a~+~b~* c', 'not^a', 'a~?~b~:~c', 'f(~a~,~b)', '[~a~,~b~]', '{a~:~b~}', 'a~.b', 'a~?.b', 'a[~1~:~2~]', 'all(xs~,~{#~> 1}~)',
              '"s"^matches^"p"', 'a~..~b', '-~a', 'a~**~-~b', 'a^and^not^b', 'a^or^b^and^c', 'a~==~b^in^c', '(~a~)~+ 1', 'a^not^in^[1]', 'x^contains^y', 'a~?:~b']:
        assert t.count('~') + t.count('^') <= 4
        jobs.append((H('parser', 'HarnessC11Whitespace'), P('parser'), None, {'params': {'tmpl': t}, 'label': 'whitespace ' + t, 'split_after': 40, 'job_timeout': 900}))
    meta = {
        'explanation': 'whitespace: token sequences laid out with SYMBOLIC whitespace bytes (space, tab, line break, carriage return; optional where no separator is needed) parse to the same tree as with single spaces. Round trip through the REAL parser (parseExpression/parsePrimary/parseConditionalExpression/parsePostfixExpression/next/expect, Token.Is) on token sequences printed from a tree shape with only the parentheses the documented precedence/associativity table requires (and with one redundant pair around a symbolically chosen subterm): every operator is symbolic - its level is forked, the operator within the level is a symbolic index, so binaryOperators[token] is an if-then-else term and the climbing test op.precedence >= precedence is decided by z3; asserted: accepted, and the parsed tree equals the printed tree',
        'bounds': {'shapes': len(shapes), 'operator nodes per tree': '<= 3 (binary, unary, conditional, member access, index)', 'operators': 'all 23 binary and 4 unary operators'},
        'outside': ['differential against a full reference parser on arbitrary token sequences (only panic-freedom on token sequences is checked, in C04)', 'calls, builtins/closures, array and map literals, slices in the round trip', 'whitespace inside string literals'],
        'assumptions': COMMON_ASSUME + ['the reference precedence table of harness/parser/zz_verif_c11.go states the documented grammar'],
        'must_reach': ['c11.parsed', 'c11.ws.parsed'],
    }
    return jobs, meta


def c17(tier):
    import templates
    jobs = [(H('.', 'HarnessC17Config'), P('.'), None, {})]
    for o, c, t in templates.C17_PAIRS:
        jobs.append((H('.', 'HarnessC17Overload'), P('.'), None, {'params': {'opsrc': o, 'callsrc': c, 'table': t}, 'label': '%s ~ %s [table %d]' % (o, c, t), 'job_timeout': 600}))
    meta = {
        'explanation': 'operator form and explicit-call form of each expression are compiled by the real pipeline (FindSuitableOperatorOverload, operatorPatcher via ast.Walk, checker overload branch, Config.Check) with expr.Operator tables of one or several candidates (concrete, interface-typed and method candidates, different orders) and run on the real VM with symbolic member values and UNINTERPRETED overload functions with a call log; z3 decides equal result and equal (function, operands, order) log for all values; positions: nested, under index/slice/property, in closure bodies, call arguments, map values, conditional branches; occurrences with non-matching operand types keep the built-in meaning; ill-shaped mappings (missing, non-function, wrong arity, two results) at either table position are rejected',
        'bounds': {'expression pairs': len(templates.C17_PAIRS), 'overload tables': 6, 'operand values': 'all int64'},
        'outside': ['operand types changed by a user Patch visitor between the two checks', 'expressions outside the listed positions'],
        'assumptions': COMMON_ASSUME,
        'must_reach': ['c17.ran', 'c17.config.checked'],
    }
    return jobs, meta


def c03_fill(ctx, x):
    out = []
    i = 0
    while i < len(ctx):
        if ctx.startswith('{X}', i): out.append(x); i += 3
        elif ctx.startswith('{{', i): out.append('{'); i += 2
        elif ctx.startswith('}}', i): out.append('}'); i += 2
        else: out.append(ctx[i]); i += 1
    return ''.join(out)


def c03(tier):
    import templates, random
    q = tier == 'quick'
    jobs = []
    sound = [s for s in templates.gen(1) if 'Any' not in s] + templates.C03_SOUND_EXTRA
    if not q:
        sound += [s for s in templates.gen(2, quick=True) if 'Any' not in s and s not in sound]
    for n, src in enumerate(sound):
        for a in ((0,) if q and n % 4 else (0, 1, 2, 3)):
            jobs.append((H('.', 'HarnessC03Sound'), P('.'), None, {'params': {'src': src, 'as': a, 'maxlen': 2}, 'label': 'sound %s [as=%d]' % (src, a), 'job_timeout': 300 if q else 900}))
    rnd = random.Random(SEED[0])
    n = 0
    for f in templates.C03_FAULTS:
        ctxs = templates.C03_CONTEXTS
        if q:
            ctxs = [ctxs[0]] + rnd.sample(ctxs[1:], 3)
        for c in ctxs:
            if f == '#' and 'map(' in c:
                continue
            src = c03_fill(c, f)
            jobs.append((H('.', 'HarnessC03Reject'), P('.'), None, {'params': {'src': src, 'wellsrc': 0}, 'label': 'reject ' + src}))
    for w in templates.C03_WELL:
        # (the last context compares with an int and is only type-neutral for faults, not for arbitrary well-typed siblings)
        for c in templates.C03_CONTEXTS[:6] if q else templates.C03_CONTEXTS[:-1]:
            src = c03_fill(c, w)
            jobs.append((H('.', 'HarnessC03Reject'), P('.'), None, {'params': {'src': 'Foo_undefined + 1', 'wellsrc': 1, 'well': src}, 'label': 'accept ' + src}))
    meta = {
        'explanation': 'soundness: every template accepted by the real checker against the environment type (members of the numeric kinds int/int64/uint8/float64, bool, string, []int, [][]int, []string, map[string]int, pointer chain, functions, methods; no interface-typed operand) is run on the real VM with symbolic environment values; z3 decides that no run fails for a type reason (classified from the error text: invalid operation, interface conversion, cannot fetch, reflect Call/MapIndex assignability, ...) and that a successful result has the dynamic type checker.Check reported, exactly bool/int64/float64 under AsBool/AsInt64/AsFloat64. rejection: each documented typing rule violated once (mismatched operands, unknown name/field/method, arity and argument type, non-boolean condition/predicate, non-collection builtin argument, bad index/slice) placed in 12 expression contexts must be rejected by Compile, and the well-typed sibling in the same context accepted',
        'bounds': {'soundness templates': len(sound), 'faults x contexts': '%d x %d' % (len(templates.C03_FAULTS), len(templates.C03_CONTEXTS)), 'arrays': '<= 2', 'environment types': 'the members of the harness environment'},
        'outside': ['environment types beyond the harness environment (named scalar types, pointer-to-scalar members, arrays)', 'faults beyond the listed ones', 'programs above the node budget'],
        'assumptions': COMMON_ASSUME + ['type versus value failure is classified from the error message text'],
        'must_reach': ['c03.sound.ran', 'c03.sound.succeeded', 'c03.reject.compiled'],
    }
    return jobs, meta


def c16(tier):
    jobs = []
    for k in range(19):
        jobs.append((H('.', 'HarnessC16Identifier'), P('.'), None, {'params': {'env': k}, 'label': 'identifier env=%d' % k}))
        jobs.append((H('.', 'HarnessC16Call'), P('.'), None, {'params': {'env': k}, 'label': 'call env=%d' % k}))
        jobs.append((H('.', 'HarnessC16Doc'), P('.'), None, {'params': {'env': k}, 'label': 'doc env=%d' % k}))
    jobs.append((H('.', 'HarnessC16Member'), P('.'), None, {'label': 'member'}))
    meta = {
        'explanation': 'real CreateTypesTable/FieldsFromStruct, checker IdentifierNode/PropertyNode/MethodNode/FunctionNode (fieldType, methodType), vm.fetch/FetchFn and docgen.CreateDoc executed on a family of 16 environment values (embedding by value and by pointer, shadowing at the same and at different depths, outer field before/after the embedded struct, genuine ambiguity, unexported fields and unexported embedded types, value and pointer receivers, typed and untyped maps, function-valued members, nested struct members) x 18 member and near-miss names chosen symbolically: (i) a name Compile accepts resolves at run time on the populated value with the assumed type; (ii) for struct environments every exported member that Go itself resolves unambiguously (reflect.Type.FieldByName / MethodByName, i.e. the selector rule of the interpreter model) is accepted; (iii) docgen.CreateDoc(...).Variables lists exactly the accepted names',
        'bounds': {'environment types': 19, 'names': 21, 'embedding depth': 2},
        'outside': ['environment types beyond the family (parametric shapes chosen by the solver were not built: Go types are static)', 'docgen type rendering', 'protobuf XXX_ filtering'],
        'assumptions': COMMON_ASSUME + ['the reflect model (FieldByName selector rule, CanInterface on unexported fields, method sets) follows the reflect documentation'],
        'must_reach': ['c16.ident.compiled', 'c16.call.compiled', 'c16.member.compiled', 'c16.doc.created'],
    }
    return jobs, meta


def c13(tier):
    import templates
    jobs = []
    for t, mode in templates.C13_TEMPLATES:
        jobs.append((H('.', 'HarnessC13Position'), P('.'), None, {'params': {'tmpl': t, 'mode': mode}, 'label': '%s [mode %d]' % (t, mode), 'split_after': 40, 'job_timeout': 900}))
    meta = {
        'explanation': 'each template is a source with ONE fault (compile time: unknown name, field, function, type mismatch at one operator, bad argument, non-boolean condition/predicate, syntax error at one token; run time: exactly one failing operation - division by zero, index out of range, nil pointer, bad pattern, panicking environment function - among guarded ones) laid out with SYMBOLIC whitespace (space, tab or line break at each ~, so the fault lands on any line and column) and with multi-byte characters before the fault; the whole real pipeline (lexer on symbolic bytes, parser, checker, compiler location table, VM recover, file.Error.Bind, Source.Snippet) runs symbolically with symbolic token locations; z3 decides that the reported line/column is the first character of the marked token, that the location lies inside the source and that the snippet first line is the source line it names',
        'bounds': {'templates': len(templates.C13_TEMPLATES), 'symbolic whitespace positions per template': '1..4 (3 values each)', 'lines': '<= 5'},
        'outside': ['lexer-internal errors (the suite pins their column as the scanner position)', 'faults and constructs beyond the listed templates', 'the caret line of the snippet'],
        'assumptions': COMMON_ASSUME,
        'must_reach': ['c13.compiled', 'c13.ran'],
    }
    return jobs, meta


def c05(tier):
    import templates
    q = tier == 'quick'
    srcs = templates.gen(1) if q else templates.gen(2, quick=True) + [s for s in templates.gen(3) if s not in templates.gen(2)]
    jobs = []
    for src in srcs:
        for opt in ((1,) if q else (1, 0)):
            jobs.append((H('.', 'HarnessC05Program'), P('.'), None, {'params': {'src': src, 'optimize': opt, 'maxlen': 2}, 'label': '%s [opt %d]' % (src, opt), 'job_timeout': 300 if q else 900}))
    sizes = [10900, 10930, 21800, 21843, 21846, 22000] if q else [5000, 10900, 10921, 10922, 10923, 10930, 16000, 21800, 21840, 21841, 21842, 21843, 21844, 21845, 21846, 21847, 22000, 30000]
    for shape in (0, 1, 2, 3):
        for n in sizes:
            for skiponly in ((1,) if q else (1, 0)):
                if skiponly == 0 and n > 21800:
                    continue
                jobs.append((H('.', 'HarnessC05Large'), P('.'), None, {'params': {'shape': shape, 'n': n, 'skiponly': skiponly}, 'label': 'large shape=%d n=%d skiponly=%d' % (shape, n, skiponly), 'instr_budget': 300000000, 'job_timeout': 1500}))
    meta = {
        'explanation': '(a) every template program compiled by the real pipeline is decoded by an independent verifier (operand table written from the opcode list: known opcodes, constant operands in range and of the kind the instruction expects - string, regexp, call descriptor -, every jump on an instruction boundary inside the program or at its end); (b) it is run on a caller-owned VM with a SYMBOLIC environment driving every branch: no run fails by popping an empty stack, every successful run ends with an empty stack (exactly the result was left) and no loop scope open; (c) programs whose branches and loop bodies are around and beyond 64 KiB of bytecode (n three-byte operands, n around 32768/3 and 65536/3) are built as syntax trees and compiled by the real compiler: either compilation fails or the program is well formed and the jump over/into the large block lands on its label (result equals the definition)',
        'bounds': {'templates': len(srcs), 'arrays': '<= 2', 'large blocks': 'n in %s identifiers of 3 bytes' % sizes, 'shapes': 'conditional (both arms), short-circuit and, loop body'},
        'outside': ['the symbolic-child-length induction over code-generation schemes of DESIGN.md section 3 (not built: block lengths are concrete sizes here)', 'programs with more than 65535 distinct constants (limit exists in makeConstant; exercising it costs > 10^7 interpreted instructions)', 'programs not produced by Compile'],
        'assumptions': COMMON_ASSUME + ['the operand table of the harness verifier (vfOperandKind) states which instructions carry which operand'],
        'must_reach': ['c05.compiled', 'c05.ran', 'c05.large.compiled', 'c05.large.ran', 'c05.large.refused'],
    }
    return jobs, meta


def c09(tier):
    import templates
    q = tier == 'quick'
    srcs = templates.gen(1) if q else templates.gen(2, quick=True)
    srcs = [s for s in srcs] + templates.C02_TEMPLATES[::3 if q else 1]
    if q:
        srcs = srcs[SEED[0] % 2::2]
    jobs = []
    for n, src in enumerate(srcs):
        for mapenv in ((1 if n % 5 == 0 else 0,) if q else (0, 1)):
            jobs.append((H('.', 'HarnessC09Purity'), P('.'), None, {'params': {'src': src, 'optimize': 1, 'maxlen': 2, 'longxs': 0, 'mapenv': mapenv, 'budget': 4 if n % 3 == 0 else 0}, 'label': '%s [mapenv %d]' % (src, mapenv), 'job_timeout': 300 if q else 900}))
    for src in ['[A, B]', 'map(Xs, {# + 1})', 'len(0..A)', '{a: A, b: B}', 'filter(Xs, {# > A})', '[A, B, A + B]']:
        jobs.append((H('.', 'HarnessC09Purity'), P('.'), None, {'params': {'src': src, 'optimize': 1, 'maxlen': 2, 'longxs': 0, 'mapenv': 0, 'budget': 4}, 'label': src + ' [budget 4, reused VM]', 'job_timeout': 600}))
    for src in ['A in Xs', 'A not in Xs', 'count(Ys, {# in Xs})', 'Xs[0] + (A in Xs ? 1 : 0)', '[Xs[0], A in Xs]', 'filter(Xs, {# > A})', 'map(Xs, {# * 2})', 'Xs[1:3]', 'len(Xs)']:
        jobs.append((H('.', 'HarnessC09Purity'), P('.'), None, {'params': {'src': src, 'optimize': 1, 'maxlen': 2, 'longxs': 1, 'mapenv': 0, 'budget': 0}, 'label': src + ' [long Xs]', 'job_timeout': 600}))
    for src in ['PtrAdd(1)', 'Twice(1)', 'A + B', 'Fn(1)', 'M.a', 'Zz + 1', 'PtrAdd(1) + A']:
        jobs.append((H('.', 'HarnessC09History'), P('.'), None, {'params': {'src': src}, 'label': 'history ' + src}))
    meta = {
        'explanation': 'each template is compiled twice by the real pipeline with every map iteration order (range over maps, reflect MapKeys - types table creation, Config.Check) made a SYMBOLIC choice (identity / reversed / rotated): the two programs must be equal byte for byte and constant for constant; Compile must not modify the sample environment; the program then runs on a symbolic environment (struct or map form) and program (bytecode, constants incl. folded slices and lookup maps) and environment (slices, nested slices, map, pointer chain) are compared with deep snapshots taken before the run; running again on the equal snapshot environment must give an equal result; 40-element descending env slices exercise size-dependent code paths; compilation histories (other option sets compiled in between) must not change a compilation',
        'bounds': {'templates': len(srcs), 'map orders': '3 per iteration', 'arrays': '<= 2 (and one concrete 40-element slice)', 'history': 'one compilation with other options in between'},
        'outside': ['cross-process determinism', 'address-dependent behaviour', 'user visitors and environment functions'],
        'assumptions': COMMON_ASSUME,
        'must_reach': ['c09.compiled-twice', 'c09.ran', 'c09.history.compiled'],
    }
    return jobs, meta


def c08(tier):
    import templates
    q = tier == 'quick'
    srcs = templates.gen(1) if q else templates.gen(2, quick=True)
    srcs = [s for s in srcs if 'Twice' not in s and 'PtrAdd' not in s]
    if q:
        srcs = srcs[SEED[0] % 2::2]
    srcs += ['A / B', 'Xs[A]', 'S matches T', 'T matches S', 'map(Ss, {S matches #})', 'A in [1, 2, 3]', 'S in ["a", "b"]', 'A in 1..3', 'len(1..3)', '[1, 2, 3][A]', 'Ptr.V']
    jobs = []
    for n, src in enumerate(srcs):
        jobs.append((H('.', 'HarnessC08Run'), P('.'), None, {'params': {'src': src, 'mapenv': 1 if n % 4 == 3 else 0}, 'label': 'run ' + src, 'job_timeout': 300 if q else 900}))
    for src in ['A + B', 'A + Pure2(2)', 'S matches "^a"', 'A in [1, 2, 3]', 'count(Xs, {# > A})', 'Ptr.Next.V', 'M.a + 1', 'Foo + 1', 'A +', 'E + D', 'B']:
        for mapenv in (0, 1, 2):
            jobs.append((H('.', 'HarnessC08Compile'), P('.'), None, {'params': {'src': src, 'mapenv': mapenv}, 'label': 'compile %s [mapenv %d]' % (src, mapenv)}))
    meta = {
        'explanation': 'REDUCED CLAIM (schedules are not enumerated): race freedom for every schedule follows from the lemma that no step of a run, and no step of a compilation, stores into state another goroutine can reach. The real VM.Run (two runs per program, symbolic environment values driving every branch, struct and map environments, run-time failures included) and the real expr.Compile (options with Env, Operator, ConstExpr, Patch) are executed symbolically while the interpreter reports every store (field or element store, map update, in-place append) whose target is reachable from the program (bytecode, constants incl. regexps, folded slices, lookup maps, call descriptors, locations, source), the environment value, the option/sample-environment objects or any package-level variable of the library; also asserted: each run returns what it returns alone. Counterexamples are replayed natively by running the same program from 4 goroutines under the Go race detector',
        'bounds': {'templates': len(srcs), 'runs per program': 2, 'arrays': '<= 2'},
        'outside': ['real interleavings and the Go memory model', 'thread safety of the standard library stubs (regexp.MatchString, reflect reads)', 'environment functions (the caller\'s)'],
        'assumptions': COMMON_ASSUME + ['a store the interpreter does not see (inside a stubbed standard-library function) is not reported'],
        'must_reach': ['c08.ran', 'c08.compiled'],
    }
    return jobs, meta


PROPS = {
    'C08': c08,
    'C09': c09,
    'C05': c05,
    'C13': c13,
    'C16': c16,
    'C03': c03,
    'C17': c17,
    'C11': c11,
    'C04': c04,
    'C12': c12,
    'C02': c02,
    'C15': c15,
    'C18': c18,
    'C01': c01,
    'C10': c10,
    'C06': c06,
    'C07': c07,
    'C14': c14,
}
