# Per-property job lists (harnesses, shards, bounds) for the quick and thorough tiers.
from engine import MOD

VM = MOD + '/vm'


def H(pkg, name):
    return MOD + ('/' + pkg if pkg != '.' else '') + '.' + name


def P(pkg):
    return [MOD + ('/' + pkg if pkg != '.' else '')]


COMMON_ASSUME = [
    'go/ssa (x/tools v0.29.0) translation of the current /repo source is faithful; the gosym interpreter implements Go semantics for the instruction kinds it supports (anything else ends the path as UNSUPPORTED, reported as inconclusive)',
    'z3 4.15/5.x (z3-solver wheel) decides the queries; unknown/timeouts are reported as inconclusive, never as success',
    'stdlib stubs (reflect model, fmt, strings, strconv, regexp and math.Pow as listed in DESIGN.md section 2.5) follow their documentation',
]


def c14(tier):
    jobs = []
    for op in range(10):
        for ka in range(12):
            jobs.append((H('vm', 'HarnessC14Binary'), P('vm'), [[op, ka]], {'timeout_ms': 60000}))
    for which in range(5):
        for ka in range(12):
            jobs.append((H('vm', 'HarnessC14Unary'), P('vm'), [[which, ka]], {'timeout_ms': 60000}))
    meta = {
        'explanation': 'every generated helper (equal, less, more, lessOrEqual, moreOrEqual, add, subtract, multiply, divide, modulo) x every ordered pair of the 12 numeric kinds, operand VALUES symbolic (bit-vectors of the Go width / IEEE floats), compared by z3 with the promotion rule written independently in the harness (convert lower rank to higher rank with Go conversion semantics, apply the Go operator at that kind); plus negate, toInt, toInt64, toFloat64, exponent',
        'bounds': {'values': 'none (all values of every kind)', 'kinds': '12x12 ordered pairs x 10 operators + unary', 'float->int': 'excluded (implementation-defined out of range)', 'math.Pow': 'uninterpreted function'},
        'outside': ['float to int conversions in toInt/toInt64', 'the value of math.Pow itself'],
        'assumptions': COMMON_ASSUME,
        'must_reach': ['c14.binary', 'c14.negate', 'c14.toInt', 'c14.toInt64', 'c14.toFloat64', 'c14.exponent'],
    }
    return jobs, meta


PROPS = {
    'C14': c14,
}
