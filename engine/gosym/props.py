# Per-property job lists (harnesses, shards, bounds) for the quick and thorough tiers.
from engine import MOD

VM = MOD + '/vm'


def H(pkg, name):
    return MOD + ('/' + pkg if pkg != '.' else '') + '.' + name


def P(pkg):
    return [MOD + ('/' + pkg if pkg != '.' else '')]


COMMON_ASSUME = [
    'go/ssa (x/tools v0.29.0) translation of the current /repo source is faithful; the gosym interpreter implements Go semantics for the instruction kinds it supports (anything else ends the path as UNSUPPORTED, reported as inconclusive)',
    'z3 4.15/5.x (z3-solver wheel) decides the queries; unknown/timeouts are reported as inconclusive, never as success',
    'stdlib stubs (reflect model, fmt, strings, strconv, regexp and math.Pow as listed in DESIGN.md section 2.5) follow their documentation',
]


def c14(tier):
    jobs = []
    for op in range(10):
        for ka in range(12):
            jobs.append((H('vm', 'HarnessC14Binary'), P('vm'), [[op, ka]], {'timeout_ms': 60000}))
    for which in range(5):
        for ka in range(12):
            jobs.append((H('vm', 'HarnessC14Unary'), P('vm'), [[which, ka]], {'timeout_ms': 60000}))
    meta = {
        'explanation': 'every generated helper (equal, less, more, lessOrEqual, moreOrEqual, add, subtract, multiply, divide, modulo) x every ordered pair of the 12 numeric kinds, operand VALUES symbolic (bit-vectors of the Go width / IEEE floats), compared by z3 with the promotion rule written independently in the harness (convert lower rank to higher rank with Go conversion semantics, apply the Go operator at that kind); plus negate, toInt, toInt64, toFloat64, exponent',
        'bounds': {'values': 'none (all values of every kind)', 'kinds': '12x12 ordered pairs x 10 operators + unary', 'float->int': 'excluded (implementation-defined out of range)', 'math.Pow': 'uninterpreted function'},
        'outside': ['float to int conversions in toInt/toInt64', 'the value of math.Pow itself'],
        'assumptions': COMMON_ASSUME,
        'must_reach': ['c14.binary', 'c14.negate', 'c14.toInt', 'c14.toInt64', 'c14.toFloat64', 'c14.exponent'],
    }
    return jobs, meta


def c06(tier):
    jobs = [(H('vm', 'HarnessC06MakeRange'), P('vm'), None, {})]
    kmax = 2 if tier == 'quick' else 3
    for k in range(kmax):
        import itertools
        for kinds in itertools.product(range(3), repeat=k + 1):
            jobs.append((H('vm', 'HarnessC06Seq'), P('vm'), [[k] + list(kinds)], {}))
    meta = {
        'explanation': 'programs assembled from the allocating instructions (OpRange with symbolic 64-bit bounds, OpArray and OpMap literals of 0..3 elements) in every order, k=%d..%d constructs per run, run on the real VM.Run dispatch loop under a symbolic budget; z3 decides for all bounds and budgets that the run succeeds iff the number of elements created (reference: len of each collection, computed in unsigned arithmetic) is below the budget, and that the only failure is the budget error; makeRange contract (len and elements) for all bounds with <= 8 elements' % (1, kmax),
        'bounds': {'constructs per run': kmax, 'range bounds': 'all int64 values', 'budget': '1..2^20 (default 10^6 is inside)', 'admitted range size on explored paths': '<= 8 elements (makeRange loop unrolled); larger ranges only on refused paths', 'literals': '0..3 elements'},
        'outside': ['collections created by map/filter builtins (same OpArray accounting, exercised in C18/C01 templates)', 'budgets above 2^20', 'collections returned by environment functions'],
        'assumptions': COMMON_ASSUME,
        'must_reach': ['c06.seq.ok', 'c06.seq.err', 'c06.makerange'],
    }
    return jobs, meta


def c07(tier):
    import itertools
    jobs = []
    for k in range(2):
        for kinds in itertools.product(range(3), repeat=k + 1):
            jobs.append((H('vm', 'HarnessC07Prologue'), P('vm'), [[k] + list(kinds)], {}))
    for first in range(3):
        for kinds in itertools.product(range(3), repeat=3):
            if first == 1 and (kinds[0] or kinds[1]): continue
            if first == 0 and kinds[1]: continue
            jobs.append((H('vm', 'HarnessC07History'), P('vm'), [[first] + list(kinds)], {}))
    meta = {
        'explanation': 'VM.Run executed from a VM value whose every field is symbolic/arbitrary (ip, pp, memory, limit, stale stack and scopes of length <= 2, stale bytecode and constants) and from a zero VM on the same allocating program under a symbolic budget: z3 decides that outcome and result are equal for all field values; plus two-run histories on one VM (first run succeeding, failing midway inside an open scope, or allocating) compared with a fresh VM',
        'bounds': {'stale stack/scopes': 'length <= 2', 'programs': '1..2 allocating constructs (symbolic range bounds, literals of 0..3 elements)', 'budget': '1..2^20', 'history length': 2},
        'outside': ['debug-mode VMs (debug/step/curr fields)', 'histories longer than 2 runs other than through the arbitrary pre-state harness'],
        'assumptions': COMMON_ASSUME + ['pre-state memory counter is >= 0 (what real histories produce when C06 holds)'],
        'must_reach': ['c07.prologue.ran', 'c07.history.ran'],
    }
    return jobs, meta


def c10(tier):
    jobs = []
    for kind in range(22):
        jobs.append((H('ast', 'HarnessC10Walk'), P('ast'), [[kind, sub] for sub in range(23)], {}))
    meta = {
        'explanation': 'ast.Walk/walker.walk/ast.Patch executed symbolically on a root node of every kind (22) with a composite of every kind in a symbolically chosen child slot (depth 2), child slices of symbolic length 0..3, optional children symbolically nil; a recording visitor logs (event, node identity) and replaces the node at a symbolic Exit event index; compared with the event list derived from the struct declarations (field order) and with the slot contents after the walk',
        'bounds': {'depth': 2, 'child slices': '0..3 elements', 'node kinds': '22 x (leaf children | one composite child of each of 22 kinds in each slot)', 'patch position': 'every Exit event (symbolic index)'},
        'outside': ['trees deeper than 2 (the recursion is the same function)', 'replacement at Enter events', 'visitors that replace a node by a subtree that is then traversed'],
        'assumptions': COMMON_ASSUME + ['the child-slot table of the harness (vfTree.build) lists every Node and []Node field of every node struct in declaration order'],
        'must_reach': ['c10.walked', 'c10.patched'],
    }
    return jobs, meta


PROPS = {
    'C10': c10,
    'C06': c06,
    'C07': c07,
    'C14': c14,
}
