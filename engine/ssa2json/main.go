// ssa2json: loads packages of the module in -dir (with harness files overlaid),
// builds go/ssa and dumps functions, globals and type descriptors as JSON for the
// Python symbolic interpreter (gosym). Regenerated from the current source tree on
// every run; nothing here interprets or changes semantics.
package main

import (
	"encoding/json"
	"flag"
	"fmt"
	"go/constant"
	"go/token"
	"go/types"
	"math"
	"os"
	"path/filepath"
	"sort"
	"strings"

	"golang.org/x/tools/go/packages"
	"golang.org/x/tools/go/ssa"
	"golang.org/x/tools/go/ssa/ssautil"
	"golang.org/x/tools/go/types/typeutil"
)

type J = map[string]interface{}

type dumper struct {
	prog    *ssa.Program
	tmap    typeutil.Map
	types   []J
	dumpPkg map[string]bool // package paths whose functions are dumped with bodies
	fnSeen  map[*ssa.Function]bool
	fnQueue []*ssa.Function
	funcs   map[string]J
	extern  map[string]J
}

func (d *dumper) wantBody(fn *ssa.Function) bool {
	if fn.Blocks == nil {
		return false
	}
	if fn.Synthetic != "" && fn.Pkg == nil {
		// wrappers, bound methods, thunks: dump when they concern a dumped package or
		// are referenced at all (they are small).
		return true
	}
	p := fn.Pkg
	if p == nil && fn.Parent() != nil {
		p = fn.Parent().Pkg
	}
	if p == nil {
		return true
	}
	return d.dumpPkg[p.Pkg.Path()]
}

func (d *dumper) addFn(fn *ssa.Function) string {
	name := fn.String()
	if fn == nil {
		return name
	}
	if !d.fnSeen[fn] {
		d.fnSeen[fn] = true
		if d.wantBody(fn) {
			d.fnQueue = append(d.fnQueue, fn)
		} else {
			rt := []int{}
			res := fn.Signature.Results()
			for i := 0; i < res.Len(); i++ {
				rt = append(rt, d.tid(res.At(i).Type()))
			}
			d.extern[name] = J{"name": name, "rtypes": rt, "sig": d.tid(fn.Signature)}
		}
	}
	return name
}

func (d *dumper) tid(t types.Type) int {
	if t == nil {
		return -1
	}
	t = types.Unalias(t)
	switch t.(type) {
	case *types.Basic, *types.Alias, *types.Named, *types.Pointer, *types.Slice, *types.Array, *types.Map, *types.Chan, *types.Struct, *types.Interface, *types.Signature, *types.Tuple:
	default:
		return -2 // ssa opaque types (range iterators)
	}
	if v := d.tmap.At(t); v != nil {
		return v.(int)
	}
	id := len(d.types)
	d.tmap.Set(t, id)
	desc := J{"id": id, "str": types.TypeString(t, nil)}
	d.types = append(d.types, desc)
	switch t := t.(type) {
	case *types.Basic:
		desc["kind"] = "basic"
		desc["name"] = t.Name()
	case *types.Alias:
		desc["kind"] = "alias"
		desc["to"] = d.tid(types.Unalias(t))
	case *types.Named:
		desc["kind"] = "named"
		desc["name"] = t.Obj().Name()
		if t.Obj().Pkg() != nil {
			desc["pkg"] = t.Obj().Pkg().Path()
		} else {
			desc["pkg"] = ""
		}
		desc["under"] = d.tid(t.Underlying())
		desc["ptr"] = d.tid(types.NewPointer(t))
		desc["methods"] = d.methodSet(t)
	case *types.Pointer:
		desc["kind"] = "pointer"
		desc["elem"] = d.tid(t.Elem())
		desc["methods"] = d.methodSet(t)
	case *types.Slice:
		desc["kind"] = "slice"
		desc["elem"] = d.tid(t.Elem())
	case *types.Array:
		desc["kind"] = "array"
		desc["elem"] = d.tid(t.Elem())
		desc["len"] = t.Len()
	case *types.Map:
		desc["kind"] = "map"
		desc["key"] = d.tid(t.Key())
		desc["elem"] = d.tid(t.Elem())
	case *types.Chan:
		desc["kind"] = "chan"
		desc["elem"] = d.tid(t.Elem())
	case *types.Struct:
		desc["kind"] = "struct"
		fs := []J{}
		for i := 0; i < t.NumFields(); i++ {
			f := t.Field(i)
			pkg := ""
			if f.Pkg() != nil {
				pkg = f.Pkg().Path()
			}
			fs = append(fs, J{"name": f.Name(), "type": d.tid(f.Type()), "embedded": f.Embedded(), "exported": f.Exported(), "pkg": pkg})
		}
		desc["fields"] = fs
		desc["methods"] = d.methodSet(t)
	case *types.Interface:
		desc["kind"] = "interface"
		ms := []J{}
		for i := 0; i < t.NumMethods(); i++ {
			m := t.Method(i)
			pkg := ""
			if m.Pkg() != nil {
				pkg = m.Pkg().Path()
			}
			ms = append(ms, J{"name": m.Name(), "sig": d.tid(m.Type()), "exported": m.Exported(), "pkg": pkg})
		}
		desc["imethods"] = ms
	case *types.Signature:
		desc["kind"] = "signature"
		desc["params"] = d.tupleIDs(t.Params())
		desc["results"] = d.tupleIDs(t.Results())
		desc["variadic"] = t.Variadic()
	case *types.Tuple:
		desc["kind"] = "tuple"
		desc["elems"] = d.tupleIDs(t)
	default:
		desc["kind"] = "other"
	}
	return id
}

func (d *dumper) tupleIDs(t *types.Tuple) []int {
	r := []int{}
	if t == nil {
		return r
	}
	for i := 0; i < t.Len(); i++ {
		r = append(r, d.tid(t.At(i).Type()))
	}
	return r
}

// methodSet returns name -> {fn, sig, exported, ptrrecv} for the method set of t (in the
// order go/types gives it, which is sorted by name as reflect does for exported methods).
func (d *dumper) methodSet(t types.Type) []J {
	if types.IsInterface(t) {
		return nil
	}
	ms := d.prog.MethodSets.MethodSet(t)
	out := []J{}
	for i := 0; i < ms.Len(); i++ {
		sel := ms.At(i)
		fn := d.prog.MethodValue(sel)
		if fn == nil {
			continue
		}
		obj := sel.Obj().(*types.Func)
		pkg := ""
		if obj.Pkg() != nil {
			pkg = obj.Pkg().Path()
		}
		out = append(out, J{"name": obj.Name(), "fn": d.addFn(fn), "sig": d.tid(obj.Type()), "exported": obj.Exported(), "pkg": pkg})
	}
	return out
}

func (d *dumper) constVal(c *ssa.Const) interface{} {
	if c.Value == nil {
		return nil
	}
	switch c.Value.Kind() {
	case constant.Bool:
		return constant.BoolVal(c.Value)
	case constant.String:
		// bytes as latin-1 escaped list to stay byte exact
		s := constant.StringVal(c.Value)
		b := []int{}
		for i := 0; i < len(s); i++ {
			b = append(b, int(s[i]))
		}
		return J{"s": b}
	case constant.Int:
		return J{"i": c.Value.ExactString()}
	case constant.Float:
		t := c.Type().Underlying()
		if b, ok := t.(*types.Basic); ok && (b.Info()&types.IsInteger) != 0 {
			// integer typed constant with float representation
			if i := constant.ToInt(c.Value); i.Kind() == constant.Int {
				return J{"i": i.ExactString()}
			}
		}
		f, _ := constant.Float64Val(c.Value)
		if b, ok := t.(*types.Basic); ok && b.Kind() == types.Float32 {
			f32, _ := constant.Float32Val(c.Value)
			return J{"f": fmt.Sprintf("%d", math.Float32bits(f32)), "w": 32}
		}
		return J{"f": fmt.Sprintf("%d", math.Float64bits(f)), "w": 64}
	}
	return J{"unsupported": c.Value.String()}
}

type fnCtx struct {
	slots map[ssa.Value]int
}

func (d *dumper) operand(fc *fnCtx, v ssa.Value) interface{} {
	if v == nil {
		return nil
	}
	switch v := v.(type) {
	case *ssa.Const:
		return []interface{}{"c", d.tid(v.Type()), d.constVal(v)}
	case *ssa.Global:
		return []interface{}{"g", v.String()}
	case *ssa.Function:
		return []interface{}{"f", d.addFn(v)}
	case *ssa.Builtin:
		return []interface{}{"b", v.Name()}
	}
	if s, ok := fc.slots[v]; ok {
		return []interface{}{"r", s}
	}
	panic(fmt.Sprintf("unknown operand %T %v", v, v))
}

func (d *dumper) operands(fc *fnCtx, vs []ssa.Value) []interface{} {
	r := []interface{}{}
	for _, v := range vs {
		r = append(r, d.operand(fc, v))
	}
	return r
}

func (d *dumper) callCommon(fc *fnCtx, c *ssa.CallCommon, j J) {
	j["args"] = d.operands(fc, c.Args)
	if c.IsInvoke() {
		j["invoke"] = c.Method.Name()
		j["recv"] = d.operand(fc, c.Value)
		j["mpkg"] = ""
		if c.Method.Pkg() != nil {
			j["mpkg"] = c.Method.Pkg().Path()
		}
	} else {
		j["fn"] = d.operand(fc, c.Value)
	}
}

func (d *dumper) dumpFn(fn *ssa.Function) {
	name := fn.String()
	fj := J{"name": name, "synthetic": fn.Synthetic}
	if fn.Pkg != nil {
		fj["pkg"] = fn.Pkg.Pkg.Path()
	}
	fj["sig"] = d.tid(fn.Signature)
	fc := &fnCtx{slots: map[ssa.Value]int{}}
	n := 0
	ptypes := []int{}
	for _, p := range fn.Params {
		fc.slots[p] = n
		ptypes = append(ptypes, d.tid(p.Type()))
		n++
	}
	fj["nparams"] = len(fn.Params)
	fj["ptypes"] = ptypes
	for _, fv := range fn.FreeVars {
		fc.slots[fv] = n
		n++
	}
	fj["nfree"] = len(fn.FreeVars)
	for _, b := range fn.Blocks {
		for _, ins := range b.Instrs {
			if v, ok := ins.(ssa.Value); ok {
				fc.slots[v] = n
				n++
			}
		}
	}
	fj["nslots"] = n
	if fn.Recover != nil {
		fj["recover"] = fn.Recover.Index
	}
	rtypes := []int{}
	res := fn.Signature.Results()
	for i := 0; i < res.Len(); i++ {
		rtypes = append(rtypes, d.tid(res.At(i).Type()))
	}
	fj["rtypes"] = rtypes
	blocks := []J{}
	for _, b := range fn.Blocks {
		bj := J{"idx": b.Index, "comment": b.Comment}
		succs := []int{}
		for _, s := range b.Succs {
			succs = append(succs, s.Index)
		}
		bj["succs"] = succs
		preds := []int{}
		for _, s := range b.Preds {
			preds = append(preds, s.Index)
		}
		bj["preds"] = preds
		instrs := []J{}
		for _, ins := range b.Instrs {
			ij := J{}
			if v, ok := ins.(ssa.Value); ok {
				ij["r"] = fc.slots[v]
				ij["t"] = d.tid(v.Type())
			}
			if ins.Pos().IsValid() {
				p := d.prog.Fset.Position(ins.Pos())
				ij["pos"] = fmt.Sprintf("%s:%d", filepath.Base(p.Filename), p.Line)
			}
			switch ins := ins.(type) {
			case *ssa.Alloc:
				ij["op"] = "Alloc"
				ij["heap"] = ins.Heap
				ij["comment"] = ins.Comment
			case *ssa.BinOp:
				ij["op"] = "BinOp"
				ij["tok"] = ins.Op.String()
				ij["x"] = d.operand(fc, ins.X)
				ij["y"] = d.operand(fc, ins.Y)
				ij["xt"] = d.tid(ins.X.Type())
				ij["yt"] = d.tid(ins.Y.Type())
			case *ssa.UnOp:
				ij["op"] = "UnOp"
				ij["tok"] = ins.Op.String()
				ij["x"] = d.operand(fc, ins.X)
				ij["xt"] = d.tid(ins.X.Type())
				ij["commaok"] = ins.CommaOk
			case *ssa.Call:
				ij["op"] = "Call"
				d.callCommon(fc, &ins.Call, ij)
			case *ssa.Defer:
				ij["op"] = "Defer"
				d.callCommon(fc, &ins.Call, ij)
			case *ssa.Go:
				ij["op"] = "Go"
				d.callCommon(fc, &ins.Call, ij)
			case *ssa.ChangeInterface:
				ij["op"] = "ChangeInterface"
				ij["x"] = d.operand(fc, ins.X)
			case *ssa.ChangeType:
				ij["op"] = "ChangeType"
				ij["x"] = d.operand(fc, ins.X)
			case *ssa.Convert:
				ij["op"] = "Convert"
				ij["x"] = d.operand(fc, ins.X)
				ij["xt"] = d.tid(ins.X.Type())
			case *ssa.SliceToArrayPointer:
				ij["op"] = "SliceToArrayPointer"
				ij["x"] = d.operand(fc, ins.X)
			case *ssa.DebugRef:
				continue
			case *ssa.Extract:
				ij["op"] = "Extract"
				ij["x"] = d.operand(fc, ins.Tuple)
				ij["i"] = ins.Index
			case *ssa.Field:
				ij["op"] = "Field"
				ij["x"] = d.operand(fc, ins.X)
				ij["i"] = ins.Field
			case *ssa.FieldAddr:
				ij["op"] = "FieldAddr"
				ij["x"] = d.operand(fc, ins.X)
				ij["i"] = ins.Field
			case *ssa.If:
				ij["op"] = "If"
				ij["x"] = d.operand(fc, ins.Cond)
			case *ssa.Index:
				ij["op"] = "Index"
				ij["x"] = d.operand(fc, ins.X)
				ij["y"] = d.operand(fc, ins.Index)
				ij["xt"] = d.tid(ins.X.Type())
				ij["yt"] = d.tid(ins.Index.Type())
			case *ssa.IndexAddr:
				ij["op"] = "IndexAddr"
				ij["x"] = d.operand(fc, ins.X)
				ij["y"] = d.operand(fc, ins.Index)
				ij["xt"] = d.tid(ins.X.Type())
				ij["yt"] = d.tid(ins.Index.Type())
			case *ssa.Jump:
				ij["op"] = "Jump"
			case *ssa.Lookup:
				ij["op"] = "Lookup"
				ij["x"] = d.operand(fc, ins.X)
				ij["y"] = d.operand(fc, ins.Index)
				ij["xt"] = d.tid(ins.X.Type())
				ij["commaok"] = ins.CommaOk
			case *ssa.MakeChan:
				ij["op"] = "MakeChan"
				ij["x"] = d.operand(fc, ins.Size)
			case *ssa.MakeClosure:
				ij["op"] = "MakeClosure"
				ij["fn"] = d.operand(fc, ins.Fn)
				ij["bindings"] = d.operands(fc, ins.Bindings)
			case *ssa.MakeInterface:
				ij["op"] = "MakeInterface"
				ij["x"] = d.operand(fc, ins.X)
				ij["xt"] = d.tid(ins.X.Type())
			case *ssa.MakeMap:
				ij["op"] = "MakeMap"
			case *ssa.MakeSlice:
				ij["op"] = "MakeSlice"
				ij["x"] = d.operand(fc, ins.Len)
				ij["y"] = d.operand(fc, ins.Cap)
			case *ssa.MapUpdate:
				ij["op"] = "MapUpdate"
				ij["m"] = d.operand(fc, ins.Map)
				ij["x"] = d.operand(fc, ins.Key)
				ij["y"] = d.operand(fc, ins.Value)
			case *ssa.Next:
				ij["op"] = "Next"
				ij["x"] = d.operand(fc, ins.Iter)
				ij["isstring"] = ins.IsString
			case *ssa.Panic:
				ij["op"] = "Panic"
				ij["x"] = d.operand(fc, ins.X)
			case *ssa.Phi:
				ij["op"] = "Phi"
				ij["edges"] = d.operands(fc, ins.Edges)
			case *ssa.Range:
				ij["op"] = "Range"
				ij["x"] = d.operand(fc, ins.X)
				ij["xt"] = d.tid(ins.X.Type())
			case *ssa.Return:
				ij["op"] = "Return"
				ij["results"] = d.operands(fc, ins.Results)
			case *ssa.RunDefers:
				ij["op"] = "RunDefers"
			case *ssa.Select:
				ij["op"] = "Select"
			case *ssa.Send:
				ij["op"] = "Send"
				ij["x"] = d.operand(fc, ins.Chan)
				ij["y"] = d.operand(fc, ins.X)
			case *ssa.Slice:
				ij["op"] = "Slice"
				ij["x"] = d.operand(fc, ins.X)
				ij["xt"] = d.tid(ins.X.Type())
				ij["lo"] = d.operand(fc, ins.Low)
				ij["hi"] = d.operand(fc, ins.High)
				ij["max"] = d.operand(fc, ins.Max)
			case *ssa.Store:
				ij["op"] = "Store"
				ij["x"] = d.operand(fc, ins.Addr)
				ij["y"] = d.operand(fc, ins.Val)
			case *ssa.TypeAssert:
				ij["op"] = "TypeAssert"
				ij["x"] = d.operand(fc, ins.X)
				ij["at"] = d.tid(ins.AssertedType)
				ij["commaok"] = ins.CommaOk
			default:
				ij["op"] = fmt.Sprintf("UNSUPPORTED:%T", ins)
			}
			instrs = append(instrs, ij)
		}
		bj["instrs"] = instrs
		blocks = append(blocks, bj)
	}
	fj["blocks"] = blocks
	d.funcs[name] = fj
}

func main() {
	dir := flag.String("dir", "/repo", "module directory")
	overlayDir := flag.String("overlay", "", "directory whose <pkg>/zz_*.go files are overlaid into -dir/<pkg>/")
	extra := flag.String("extra", "", "comma separated package paths (dependencies) to dump with bodies")
	tags := flag.String("tags", "", "build tags")
	out := flag.String("o", "-", "output file")
	skipNative := flag.Bool("skipnative", true, "skip overlay files ending in _native.go")
	flag.Parse()
	patterns := flag.Args()
	if len(patterns) == 0 {
		patterns = []string{"./..."}
	}

	overlay := map[string][]byte{}
	if *overlayDir != "" {
		filepath.Walk(*overlayDir, func(p string, info os.FileInfo, err error) error {
			if err != nil || info.IsDir() || !strings.HasSuffix(p, ".go") {
				return nil
			}
			if *skipNative && strings.HasSuffix(p, "_native.go") {
				return nil
			}
			rel, _ := filepath.Rel(*overlayDir, p)
			b, err := os.ReadFile(p)
			if err != nil {
				panic(err)
			}
			overlay[filepath.Join(*dir, rel)] = b
			return nil
		})
	}
	cfg := &packages.Config{
		Mode:    packages.LoadAllSyntax,
		Dir:     *dir,
		Overlay: overlay,
		Tests:   false,
	}
	if *tags != "" {
		cfg.BuildFlags = []string{"-tags=" + *tags}
	}
	pkgs, err := packages.Load(cfg, patterns...)
	if err != nil {
		fmt.Fprintln(os.Stderr, "load:", err)
		os.Exit(2)
	}
	bad := false
	packages.Visit(pkgs, nil, func(p *packages.Package) {
		for _, e := range p.Errors {
			// body-less harness declarations are fine for go/types; gc-only errors do not show here
			fmt.Fprintln(os.Stderr, "pkg error:", p.PkgPath, e)
			bad = true
		}
	})
	if bad {
		os.Exit(2)
	}
	prog, spkgs := ssautil.AllPackages(pkgs, ssa.BuilderMode(0))
	prog.Build()

	d := &dumper{prog: prog, dumpPkg: map[string]bool{}, fnSeen: map[*ssa.Function]bool{}, funcs: map[string]J{}, extern: map[string]J{}}
	for _, p := range pkgs {
		d.dumpPkg[p.PkgPath] = true
	}
	for _, e := range strings.Split(*extra, ",") {
		if e != "" {
			d.dumpPkg[e] = true
		}
	}
	_ = spkgs
	globals := []J{}
	pkgInfo := []J{}
	allp := prog.AllPackages()
	sort.Slice(allp, func(i, j int) bool { return allp[i].Pkg.Path() < allp[j].Pkg.Path() })
	for _, sp := range allp {
		if !d.dumpPkg[sp.Pkg.Path()] {
			continue
		}
		imports := []string{}
		for _, im := range sp.Pkg.Imports() {
			imports = append(imports, im.Path())
		}
		pkgInfo = append(pkgInfo, J{"path": sp.Pkg.Path(), "imports": imports})
		names := []string{}
		for n := range sp.Members {
			names = append(names, n)
		}
		sort.Strings(names)
		for _, n := range names {
			switch m := sp.Members[n].(type) {
			case *ssa.Function:
				d.addFn(m)
			case *ssa.Global:
				globals = append(globals, J{"name": m.String(), "type": d.tid(m.Type()), "elem": d.tid(m.Type().(*types.Pointer).Elem())})
			case *ssa.Type:
				t := m.Type()
				d.tid(t)
				d.tid(types.NewPointer(t))
			}
		}
	}
	for len(d.fnQueue) > 0 {
		fn := d.fnQueue[0]
		d.fnQueue = d.fnQueue[1:]
		d.dumpFn(fn)
		for _, af := range fn.AnonFuncs {
			d.addFn(af)
		}
	}
	res := J{"types": d.types, "funcs": d.funcs, "globals": globals, "packages": pkgInfo, "externs": d.extern}
	var w *os.File = os.Stdout
	if *out != "-" {
		w, err = os.Create(*out)
		if err != nil {
			panic(err)
		}
		defer w.Close()
	}
	enc := json.NewEncoder(w)
	if err := enc.Encode(res); err != nil {
		panic(err)
	}
	_ = token.NoPos
}
