#!/usr/bin/env python3
# Builds seeded/<id>_<x>/meta.json and seeded/RESULTS.md from the RESULT lines of tools/seed_run.sh
# (files given on the command line, later lines override earlier ones for the same mutant+property).
import sys, os, re, json, glob
V = os.path.dirname(os.path.dirname(os.path.abspath(__file__)))
res = {}
for f in sys.argv[1:]:
    for l in open(f):
        m = re.match(r'RESULT seeded/(\w+) (\w+) tier=(\w+) rc=(\d+) violations=(\d+) spurious=(\d+) inconclusive=(\d+) secs=(\d+) first=\[(.*?)\]', l)
        if m:
            mut, prop, tier, rc, nv, ns, ni, secs, first = m.groups()
            res.setdefault(mut, {})[prop] = {'tier': tier, 'exit': int(rc), 'violations': int(nv), 'spurious': int(ns), 'inconclusive': int(ni), 'seconds': int(secs), 'first_violation': first}
rows = []
for d in sorted(glob.glob(os.path.join(V, 'seeded', 'C*_*'))):
    mut = os.path.basename(d)
    prop = mut.split('_')[0]
    notes = open(os.path.join(d, 'notes.md')).read() if os.path.exists(os.path.join(d, 'notes.md')) else ''
    files = re.findall(r'^\+\+\+ b/(\S+)', open(os.path.join(d, 'patch.diff')).read(), re.M)
    runs = res.get(mut, {})
    caught = sorted(p for p, r in runs.items() if r['exit'] == 1 and r['violations'] > 0)
    meta = {
        'property': prop, 'variant': mut,
        'breaks': 'property %s (see notes.md: which part, and what it needs in order to manifest)' % prop,
        'files_changed': files,
        'needs_to_manifest': (re.search(r'(?is)(needs?|manifest|trigger)[^\n]*\n?(.{0,600})', notes) or [None, None, ''])[2].strip()[:600] or 'see notes.md',
        'verified': 'tools/seed_verify.sh %s : in a scratch worktree of /repo HEAD the whole suite passes with patch.diff applied, demo_test.go fails with it and passes without it' % os.path.relpath(d, V),
        'checks_run': runs,
        'caught_by': caught,
    }
    json.dump(meta, open(os.path.join(d, 'meta.json'), 'w'), indent=1)
    rows.append((mut, ', '.join(files), ', '.join('%s: %s' % (p, 'VIOLATION (%s)' % r['first_violation'] if r['exit'] == 1 and r['violations'] else ('inconclusive' if r['inconclusive'] else 'not detected')) for p, r in sorted(runs.items())) or 'not run'))
with open(os.path.join(V, 'seeded', 'RESULTS.md'), 'w') as f:
    f.write('# Seeded changes and what the checks (quick tier) reported on them\n\n')
    f.write('Each change was produced by an independent sub-agent from the property text only, verified by tools/seed_verify.sh,\nand run with tools/seed_run.sh (scratch worktree of /repo HEAD + patch.diff). Latest run per change.\n\n')
    f.write('| change | files | result |\n|---|---|---|\n')
    for r in rows:
        f.write('| %s | %s | %s |\n' % r)
    n = len(rows); c = sum(1 for r in rows if 'VIOLATION' in r[2])
    f.write('\n%d of %d seeded changes are reported as violations by the check of their property.\n' % (c, n))
print('written', len(rows))
