#!/bin/bash
# usage: seed_run.sh <seeded/ID_x> <PROP> [tier]  : runs ./check PROP against a scratch worktree of /repo HEAD with the seeded patch applied
# (VERIF_REPO points the machinery at the worktree; evidence and replays go to a scratch dir). Prints one RESULT line.
d=$(realpath $1); prop=$2; tier=${3:-quick}
wt=$(mktemp -d /tmp/seedrun.XXXXXX); rmdir $wt
git -C /repo worktree add -q --detach $wt HEAD || exit 2
scratch=$(mktemp -d /tmp/seedev.XXXXXX)
trap "git -C /repo worktree remove --force $wt; rm -rf $scratch" EXIT
git -C $wt apply $d/patch.diff || { echo "RESULT $1 $prop PATCH-DOES-NOT-APPLY"; exit 1; }
cd /verif
t0=$(date +%s)
VERIF_REPO=$wt VERIF_EVIDENCE_DIR=$scratch VERIF_REPLAY_DIR=$scratch/replays ./check $prop --tier $tier > $scratch/out.log 2>&1
rc=$?
nv=$(grep -c '^VIOLATION' $scratch/out.log); ns=$(grep -c '^SPURIOUS' $scratch/out.log); ni=$(grep -c '^INCONCLUSIVE' $scratch/out.log)
first=$(grep -m1 '^VIOLATION' $scratch/out.log | sed 's/.*replay=//')
a=""; [ -n "$first" ] && a=$(python3 -c "import json,sys; v=json.load(open('$first')); print(v['harness'], v['assert'])" 2>/dev/null)
echo "RESULT $1 $prop tier=$tier rc=$rc violations=$nv spurious=$ns inconclusive=$ni secs=$(( $(date +%s) - t0 )) first=[$a] $(grep -m1 '^INCONCLUSIVE' $scratch/out.log | cut -c1-160)"
