#!/bin/bash
# writes harness/<pkg>/zz_verif_sym.go for every harness package from tools/sym.go.tmpl
cd "$(dirname "$0")/../harness"
for d in . ast vm compiler checker optimizer parser parser/lexer conf file docgen; do
  [ -d "$d" ] || continue
  ls "$d"/zz_verif_*.go >/dev/null 2>&1 || continue
  pkg=$(basename "$d"); [ "$d" = "." ] && pkg=expr
  sed "s/^package PKG/package $pkg/" ../tools/sym.go.tmpl > "$d/zz_verif_sym.go"
done
