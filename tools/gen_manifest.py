#!/usr/bin/env python3
# Regenerates /verif/MANIFEST.json from the table below (claimed checks) and properties.jsonl (everything else -> not_applicable).
import json, os
V = os.path.dirname(os.path.dirname(os.path.abspath(__file__)))
TRUST = 'trusted: go/ssa (x/tools v0.29.0) translation of the current /repo tree, the gosym interpreter, z3; stdlib stubs of DESIGN.md 2.5; '
CHECKS = {
 'C06': ('bounded symbolic execution of the real VM dispatch loop on programs assembled from the allocating instructions with symbolic 64-bit range bounds and a symbolic budget; z3 decides "success <=> elements created < budget" for all values within the bounds (<= 3 constructs per run, admitted ranges <= 8 elements, budget <= 2^20)',
         TRUST + 'map/filter results are covered through OpArray only',
         'SMT-based symbolic execution of go/ssa (z3): VM.Run on assembled allocating programs, bounds and budget symbolic'),
 'C07': ('symbolic execution of the real VM.Run from a VM value whose fields are all symbolic versus a zero VM, and of two-run histories; z3 decides equal outcome for all field values within the bounds (stale stack/scopes <= 2 entries, programs of <= 2 allocating constructs)',
         TRUST + 'debug-mode fields excluded; pre-state memory >= 0 assumed',
         'SMT-based symbolic execution of go/ssa (z3): arbitrary-pre-state VM vs fresh VM (self-composition)'),
 'C10': ('symbolic execution of the real ast.Walk/Patch on trees of depth 2 over all 22 node kinds with symbolic child-slice lengths, symbolic optional children and a symbolic patch position; the event stream is compared with the one derived from the struct declarations',
         TRUST + 'the harness child-slot table mirrors ast/node.go',
         'SMT-based symbolic execution of go/ssa (z3): Walk with recording/patching visitor, symbolic tree shape and patch index'),
 'C14': ('bounded symbolic execution of the real helper functions for every ordered kind pair and operator with operand values symbolic; z3 decides equality with an independently written promotion rule for all values',
         TRUST + 'float to int conversions and the value of math.Pow are outside the claim',
         'SMT-based symbolic execution of go/ssa (z3), per kind pair, operand values symbolic (bit-vectors / IEEE floats)'),
}
EXTRA = {}
try:
    exec(open(os.path.join(V, 'tools/manifest_extra.py')).read())
except FileNotFoundError:
    pass
CHECKS.update(EXTRA)
NA_REASON = {}
try:
    NA_REASON = json.load(open(os.path.join(V, 'tools/na_reasons.json')))
except FileNotFoundError:
    pass
props = [json.loads(l) for l in open(os.path.join(V, 'properties.jsonl'))]
checks = []
for pid in sorted(CHECKS):
    text, note, tech = CHECKS[pid]
    checks.append({'property_id': pid, 'quick_cmd': './check %s --tier quick' % pid, 'thorough_cmd': './check %s --tier thorough' % pid,
                   'evidence_file': 'evidence/%s.json' % pid, 'replay_cmd_template': './check replay {path}', 'engine': 'gosym',
                   'level_claimed': {'category': 'model_checking', 'text': text, 'design_ref': 'DESIGN.md section 4 ' + pid},
                   'level_note': note, 'technique': tech})
na = [{'property_id': p['id'], 'reason': NA_REASON.get(p['id'], 'check not built yet (work in progress; DESIGN.md section 9 build order)')} for p in props if p['id'] not in CHECKS]
m = {'version': 1, 'setup_cmd': './setup.sh',
     'hooks': {'guard': 'verif', 'enable': 'harness files from /verif/harness are injected in-package with packages.Config.Overlay (SSA dump) and `go test -overlay` (native replay); no file in /repo is changed', 'baseline_off_cmd': 'cd /repo && go test -vet=off -count=1 ./...', 'source_commits': [], 'add_only': True},
     'engines': [{'name': 'gosym', 'path': 'engine/gosym', 'serves_properties': sorted(CHECKS), 'kind_free_text': 'symbolic executor for go/ssa (dumped by engine/ssa2json from the current /repo tree) with z3 as the deciding step; counterexamples replayed natively with go test -overlay'}],
     'checks': checks, 'not_applicable': na,
     'notes': 'see DESIGN.md; known_findings.json lists recorded and fixed defects'}
json.dump(m, open(os.path.join(V, 'MANIFEST.json'), 'w'), indent=1)
print('claimed:', sorted(CHECKS), 'na:', [n['property_id'] for n in na])
