// unitab: prints, as JSON, the code points below U+0800 for which unicode.IsSpace, IsLetter and IsDigit hold,
// as ranges [lo,hi]. Generated at setup from the real unicode package of the toolchain that builds /repo.
package main

import (
	"encoding/json"
	"os"
	"unicode"
)

func ranges(f func(rune) bool) [][2]int {
	var out [][2]int
	start := -1
	for r := 0; r <= 0x800; r++ {
		ok := r < 0x800 && f(rune(r))
		if ok && start < 0 {
			start = r
		}
		if !ok && start >= 0 {
			out = append(out, [2]int{start, r - 1})
			start = -1
		}
	}
	return out
}

func main() {
	json.NewEncoder(os.Stdout).Encode(map[string][][2]int{
		"unicode.IsSpace": ranges(unicode.IsSpace), "unicode.IsLetter": ranges(unicode.IsLetter), "unicode.IsDigit": ranges(unicode.IsDigit),
	})
}
