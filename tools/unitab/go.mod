module unitab

go 1.23
