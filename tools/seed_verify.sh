#!/bin/bash
# usage: seed_verify.sh <outdir with patch.diff demo_test.go> ; verifies in a scratch worktree of /repo HEAD:
#  suite passes with patch, demo fails with patch, demo passes without. Prints a one-line verdict.
export GOFLAGS=-mod=mod GOPROXY=off GOSUMDB=off GOTOOLCHAIN=local
out=$1
wt=$(mktemp -d /tmp/seedwt.XXXXXX); rmdir $wt
git -C /repo worktree add -q --detach $wt HEAD || exit 2
trap "git -C /repo worktree remove --force $wt" EXIT
cd $wt
# where does the demo go? first comment lines mention a directory; default repo root
dir=$(grep -m1 -oE 'package directory[^:]*: *[`"]?[./a-z]*' $out/demo_test.go | sed -E 's/.*: *[`"]?//'); 
pkg=$(grep -m1 '^package ' $out/demo_test.go | awk '{print $2}')
case "$pkg" in expr_test|expr) d=.;; vm|vm_test) d=vm;; checker|checker_test) d=checker;; compiler|compiler_test) d=compiler;; parser|parser_test) d=parser;; lexer|lexer_test) d=parser/lexer;; ast|ast_test) d=ast;; optimizer|optimizer_test) d=optimizer;; conf|conf_test) d=conf;; file|file_test) d=file;; docgen|docgen_test) d=docgen;; *) d=.;; esac
[ -n "$2" ] && d=$2
cp $out/demo_test.go $d/zz_demo_test.go
run=$(grep -oE 'func (Test[A-Za-z0-9_]+)' $d/zz_demo_test.go | awk '{print $2}' | paste -sd'|')
base=$(go test -vet=off -count=1 -run "^($run)\$" ./$d 2>&1 | tail -1)
if ! git apply $out/patch.diff 2>/tmp/seed_apply.err; then echo "VERDICT $out: PATCH-DOES-NOT-APPLY $(head -c 200 /tmp/seed_apply.err)"; exit 1; fi
withp=$(go test -vet=off -count=1 -run "^($run)\$" ./$d 2>&1 | tail -1)
rm $d/zz_demo_test.go
suite=$(go test -vet=off -count=1 ./... 2>&1 | grep -v "^ok\|no test files" | head -5)
echo "VERDICT $out: demo-without-patch=[$base] demo-with-patch=[$withp] suite-with-patch=[${suite:-all ok}] dir=$d tests=$run"
