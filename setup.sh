#!/bin/bash
# Builds the SSA dumper from the module cache (offline) and warms the SSA dump cache.
set -e
export GOFLAGS=-mod=mod GOPROXY=off GOSUMDB=off GOTOOLCHAIN=local
cd "$(dirname "$0")"
mkdir -p bin .cache evidence replays
(cd engine/ssa2json && go build -o ../../bin/ssa2json .)
(cd tools/unitab && go run . > ../../.cache/unitab.json)
python3-vt -c "import sys; sys.path.insert(0,'engine/gosym'); import engine; engine.load_program(); print('ssa dump ok')"
